"""C14 — work partitioning tiles the function list; fitting stages complete on any ranks."""
import os, types, itertools
import common, extract

LEAN_MODULE = "ESRVerif.Props.C14"
LEVEL = "proof"
RULE = ("(N,P,r) triples enumerated exhaustively up to the tier bound for split_idx and get_functions; "
        "non-trivial = P>=2 and N>=1; distinct by (function,N,P)")
EXPLANATION = ("Lean theorems (unbounded N,P) over the hand model of split_idx/get_functions and the directory "
               "protocol; model tied to the code by exhaustive correspondence up to the bound and by real multi-rank stage runs")
TRUSTED = ["hand model ESRVerif/Model/Partition.lean of split_idx and get_functions (tied by exhaustive correspondence up to the bound)",
           "int(np.ceil(N/float(P))) equals ceiling division for N < 2^53", "sort -V / cat / find of the shell"]
ASSUMPTIONS = ["atomic mkdir, no partial writes", "ranks are OS processes under the stand-in hub, not a real MPI progress engine"]
MODELLED = ["utils.py:split_idx", "test_all.py:get_functions"]


def _corr_split(ctx, Nmax, Pmax):
    import numpy as np
    from esr.generation import utils
    ops, real = [], []
    for N in range(0, Nmax + 1):
        for P in range(1, Pmax + 1):
            blocks = []
            for r in range(P):
                i = utils.split_idx(N, r, P)
                real.append("none" if len(i) == 0 else "%d %d" % (int(i[0]), int(i[1])))
                ops.append("split %d %d %d" % (N, P, r))
                blocks.append(list(range(int(i[0]), int(i[1]) + 1)) if len(i) else [])
            ctx.case(("split", N, P), nontrivial=(P >= 2 and N >= 1), n=P)
            # oracle: the property itself, on the real code
            if sum(blocks, []) != list(range(N)):
                ctx.fail("split_idx:N=%d,P=%d" % (N, P), "split_idx blocks of N=%d over P=%d ranks do not tile 0..N-1: %r" % (N, P, blocks),
                         dict(kind="split_idx", N=N, P=P))
            ref = [list(a) for a in np.array_split(np.arange(N), P)]
            if ref != blocks:
                ctx.fail("split_idx-vs-array_split:N=%d,P=%d" % (N, P), "split_idx differs from numpy.array_split: %r vs %r" % (blocks, ref),
                         dict(kind="split_idx", N=N, P=P))
    out = common.model(ops)
    bad = [(o, a, b) for o, a, b in zip(ops, real, out) if a != b]
    for o, a, b in bad[:5]:
        ctx.disagree("corr:split_idx", "%s: code=%s model=%s" % (o, a, b))
    ctx.sample(dict(op=ops[len(ops) // 2], code=real[len(ops) // 2], model=out[len(ops) // 2]))
    return len(ops), len(bad)


def _corr_getfun(ctx, Nmax, Pmax):
    import esr.fitting.test_all as ta
    d = os.path.join(ctx.tmp, "gf")
    os.makedirs(os.path.join(d, "fn", "compl_1"), exist_ok=True)
    lik = types.SimpleNamespace(fn_dir=os.path.join(d, "fn"), base_out_dir=os.path.join(d, "out"),
                                out_dir=os.path.join(d, "out", "o"), temp_dir=os.path.join(d, "out", "t"))
    ops, real = [], []
    save = (ta.rank, ta.size)
    import io, contextlib
    try:
        for N in range(0, Nmax + 1):
            lines = ["f%d\n" % k for k in range(N)]
            with open(os.path.join(lik.fn_dir, "compl_1", "unique_equations_1.txt"), "w") as fh:
                fh.writelines(lines)
            for P in range(1, Pmax + 1):
                got = []
                for r in range(P):
                    ta.rank, ta.size = r, P
                    with contextlib.redirect_stdout(io.StringIO()):
                        sl, a, b = ta.get_functions(1, lik)
                    got.append(sl)
                    first = "-" if not sl else sl[0].strip()[1:]
                    real.append("%d %d %s %d" % (a, b, first, len(sl)))
                    ops.append("getfun %d %d %d" % (N, P, r))
                ctx.case(("getfun", N, P), nontrivial=(P >= 2 and N >= 1), n=P)
                if sum(got, []) != lines:
                    ctx.fail("get_functions:N=%d,P=%d" % (N, P),
                             "get_functions slices of N=%d lines over P=%d ranks do not concatenate to the file (sizes %r)" % (N, P, [len(g) for g in got]),
                             dict(kind="get_functions", N=N, P=P))
    finally:
        ta.rank, ta.size = save
    out = common.model(ops)
    bad = [(o, a, b) for o, a, b in zip(ops, real, out) if a != b]
    for o, a, b in bad[:5]:
        ctx.disagree("corr:get_functions", "%s: code=%s model=%s" % (o, a, b))
    ctx.sample(dict(op=ops[-3], code=real[-3], model=out[-3]))
    return len(ops), len(bad)


def run(ctx):
    drift = extract.drifted(ctx.proof.get("extract", {}), MODELLED)
    deep = (not ctx.quick) or bool(drift)
    ctx.extra["source_drift"] = drift
    n1, b1 = _corr_split(ctx, 300 if deep else 150, 40 if deep else 24)
    n2, b2 = _corr_getfun(ctx, 120 if deep else 48, 40 if deep else 20)
    ctx.extra["corr_obligations"] = 2
    ctx.extra["corr_discharged"] = int(b1 == 0) + int(b2 == 0)
    ctx.extra["correspondence"] = dict(split_idx_ops=n1, split_idx_mismatch=b1, get_functions_ops=n2, get_functions_mismatch=b2)
    ctx.extra["exhaustive"] = True


def replay(ctx, data):
    rp = data["replay"]
    import numpy as np
    if rp["kind"] == "split_idx":
        from esr.generation import utils
        N, P = rp["N"], rp["P"]
        blocks = []
        for r in range(P):
            i = utils.split_idx(N, r, P)
            blocks += list(range(int(i[0]), int(i[1]) + 1)) if len(i) else []
        print("split_idx blocks N=%d P=%d ->" % (N, P), blocks)
        return blocks == list(range(N))
    if rp["kind"] == "get_functions":
        c2 = common.Ctx("C14", "quick", 0); c2.tmp = ctx.tmp; c2.stage = ctx.stage
        _corr_getfun(c2, rp["N"], rp["P"])
        return not [f for f in c2.failures if f["replay"] == rp]
    return True
