"""C08 — the tree code length equals k ln(n) + sum ln|c| and stays aligned with the tree list."""
import ast, json, math, os, re, shutil, sys, threading
import common, extract, mpirun

LEAN_MODULE = "ESRVerif.Props.C08"
LEVEL = "proof"
LEVEL_TEXT = ("Lean theorems (all label lists, all parameter lists, all shape lists and rank counts) over the return expression "
              "and writer-loop effect summary regenerated from generator.py on every run; string tests, get_max_param, "
              "count_params and tree_to_aifeyn hand-modelled and tied by randomised correspondence; real libraries checked line by line")
TECHNIQUE = "Lean 4 theorem over a model of the code + checked model/code correspondence"
RULE = ("one evaluation = one call of the real function compared with the model and the independent formula; distinct by the "
        "label list (+ parameter list / basis); non-trivial = at least one operator and (a parameter or an integer)")
EXPLANATION = ("aifeyn_spec/aifeyn_rename/single_api_agrees/aifeyn_file_aligned are proved about the expression AST and the "
               "file-writing table that harness/extractors/aifeyn.py regenerates from aifeyn_complexity and generate_equations; "
               "the real functions are compared with the executable model and with an independent k ln n + sum ln|c| oracle on "
               "random label lists (six shipped bases and random ones; integers incl. 0, negative, multi-digit; permuted and gapped "
               "parameters) and on every line of freshly generated libraries with 1 and 3 ranks")
TRUSTED = ["hand model ESRVerif/Model/Aifeyn.lean of str.lstrip/isdigit/int, get_max_param, count_params, labels_to_shape and "
           "tree_to_aifeyn (tied by randomised correspondence)",
           "harness/extractors/aifeyn.py: translation of aifeyn_complexity's body and of generate_equations' writer blocks, and the "
           "classification of the param_list expression at the two call sites in fit_single.py",
           "harness/extractors/_norm_c08.py: semantics-preserving normalisations applied before translation -- N1 one level of "
           "single-return helper inlining (atomic arguments; N1b also a one-expression `def`/`lambda` nested in the anchored function, "
           "beta-reduced; N1c at the fit_single call sites a straight-line module helper replaced by its value expression), N2 loop+append -> comprehension with guard inversion, N3 De Morgan / double "
           "negation / != vs not == in tests, N4 unrolling of loops over literal tables, N5 single-use temporary before a call statement, "
           "N6 string templates (% / f-string / + / str() / join / positional str.format) over declared-type holes, N7 forward symbolic evaluation of straight-line "
           "bindings, N8 index/enumerate loops as direct iteration; in aifeyn.py: SSA scalars, int(a != b) = (1 if a != b else 0) = "
           "`if a != b: x += 1`, arr.sum() = np.sum(arr) on syntactic ndarrays only, canonical operand order of + * != on pure scalars "
           "(side conditions in the two module docstrings)",
           "numpy float64 log/sum against Lean Float.log to 1e-9 relative; numpy int64 arithmetic taken as exact",
           "shell `cat` concatenates its arguments in order"]
ASSUMPTIONS = ["labels are ASCII (Python's str.isdigit also accepts non-ASCII digits)",
               "aifeyn_complexity receives a list of str and a list (its documented types): re-ordering pure scalar statements such as "
               "`k = len(tree)` relative to the comprehensions is observable only in the text of the TypeError for other argument types",
               "generate_equations receives dirname: str and compl: int (its documented types): under these the %s / %i / f-string / "
               "str() / + spellings of the file names and cat commands render the same text",
               "integer labels lie strictly inside (-2^63, 2^63): numpy's fixed-width abs/array conversion beyond is not modelled "
               "(observed: '-9223372036854775808' gives nan, |c| >= 2^64 raises TypeError)",
               "the empty label list is excluded from the formula (k = 0, n = 0 gives 0*ln 0 = nan in code and model alike)",
               "tree_to_aifeyn is modelled for labels that are basis members, a<digits> or integer literals, forming one complete "
               "prefix tree; other inputs (labels needing eval, malformed shapes) are outside the model",
               "a free parameter is a label 'a' followed by at least one ASCII decimal digit (the test of tree_to_aifeyn and labels_to_shape)",
               "single_function (unchanged by /repo bda8ceb) needs consecutive canonical names a0..a(m-1): its step (4) lists parameters via "
               "get_max_param, tied statically + by emulation and proved equal to tree_to_aifeyn under Gapless only"]
# tables whose committed version may stand in as a hand-written model when the translator cannot read the source;
# value = the correspondence that then ties it to the code (common.prove / common.decide)
FALLBACK = {'Aifeyn': 'real aifeyn_complexity / tree_to_aifeyn / generator files vs the Lean model on PRNG label lists and libraries'}
MODELLED = ["generator.py:aifeyn_complexity", "generator.py:generate_equations", "generator.py:labels_to_shape",
            "generator.py:is_float", "generator.py:node_to_string", "simplifier.py:get_max_param",
            "simplifier.py:count_params", "fit_single.py:tree_to_aifeyn"]

BINARY = ["+", "*", "-", "/", "pow"]
BASES = {
    "keep_duplicates": [["x", "a"], ["square", "exp", "inv", "sqrt_abs", "log_abs"], BINARY],
    "core_maths": [["x", "a"], ["inv"], BINARY],
    "ext_maths": [["x", "a"], ["inv", "sqrt_abs", "square", "exp"], BINARY],
    "osc_maths": [["x", "a"], ["inv", "sin"], BINARY],
    "base10_maths": [["x", "a"], ["tenexp", "inv", "log10_abs"], BINARY],
    "base_e_maths": [["x", "a"], ["inv", "exp", "log_abs"], BINARY],
}
_NULL = ["x", "y", "t", "pi", "a", "b1", "x0"]
_UN = ["sin", "cos", "tanh", "Abs", "sqrt_abs", "log_abs", "exp", "square", "cube", "inv", "neg", "f1", "sa2", "gamma"]
_BIN = ["+", "*", "-", "/", "pow", "max", "min", "atan2", "^", "%", "g2"]
_INTS = ["0", "1", "2", "3", "-1", "-2", "-3", "10", "-10", "12", "-0", "00", "100", "-345", "65536", "123456789",
         "9223372036854775807", "-9223372036854775807", "4611686018427387904"]
_LEADZ = ["007", "-007", "010"]

_INT_RE = re.compile(r"^-?[0-9]+$")
_PAR_RE = re.compile(r"^a[0-9]+$")


# ---------------------------------------------------------------------------------------
# the property's own formula (independent of the model and of numpy)
# ---------------------------------------------------------------------------------------

def oracle(labels, is_param):
    """(value, (k, n, [|c|])) of k ln n + sum ln|c_j|; parameters and integers together are one symbol."""
    k = len(labels)
    ints = [int(l) for l in labels if _INT_RE.match(l)]
    ops = set(l for l in labels if not is_param(l) and not _INT_RE.match(l))
    n = len(ops) + (1 if any(is_param(l) or _INT_RE.match(l) for l in labels) else 0)
    cs = [abs(c) if c != 0 else 1 for c in ints]
    val = k * math.log(n) + math.fsum(math.log(c) for c in cs) if k > 0 else float("nan")
    return val, (k, n, cs)


def close(a, b):
    a, b = float(a), float(b)
    if math.isnan(a) or math.isnan(b):
        return math.isnan(a) and math.isnan(b)
    if math.isinf(a) or math.isinf(b):
        return a == b
    return abs(a - b) <= 1e-9 * max(1.0, abs(a), abs(b))


def _short(labels, extra=""):
    s = ",".join(labels) + extra
    return s if len(s) <= 120 else s[:100] + "..#%d" % (hash(s) % 100000)


# ---------------------------------------------------------------------------------------
# real functions (imported after staging)
# ---------------------------------------------------------------------------------------

def real_aifeyn(labels, params):
    import numpy as np
    from esr.generation import generator
    try:
        with np.errstate(all="ignore"):
            import warnings
            with warnings.catch_warnings():
                warnings.simplefilter("ignore")
                return ("ok", float(generator.aifeyn_complexity(list(labels), list(params))))
    except ValueError:
        return ("err ValueError", None)
    except Exception as e:
        return ("exc %s" % type(e).__name__, None)


def real_tree2(labels, basis):
    import numpy as np
    from esr.fitting import fit_single
    try:
        import warnings
        with warnings.catch_warnings():
            warnings.simplefilter("ignore")
            v, n = fit_single.tree_to_aifeyn(list(labels), basis, verbose=False)
        return ("ok", float(v), int(n))
    except ValueError:
        return ("err ValueError", None, None)
    except Exception as e:
        return ("exc %s" % type(e).__name__, None, None)


def real_single4(labels, basis):
    """Steps (1) and (4) of single_function, composed from the real functions exactly as fit_single.py:80-83,121-122 does
    (the statements themselves are tied statically by single_function_call_site)."""
    from esr.generation import generator, simplifier
    import warnings
    try:
        with warnings.catch_warnings():
            warnings.simplefilter("ignore")
            s = generator.labels_to_shape(labels, basis)
            success, _, tree = generator.check_tree(s)
            fstr = generator.node_to_string(0, tree, labels)
            max_param = simplifier.get_max_param([fstr], verbose=False)
            param_list = ['a%i' % j for j in range(max_param)]
            return ("ok", float(generator.aifeyn_complexity(labels, param_list)), len(labels))
    except ValueError:
        return ("err ValueError", None, None)
    except Exception as e:
        return ("exc %s" % type(e).__name__, None, None)


# ---------------------------------------------------------------------------------------
# generators
# ---------------------------------------------------------------------------------------

def rand_basis(rng):
    if rng.random() < 0.6:
        name = rng.choice(sorted(BASES))
        return name, BASES[name]
    b = [rng.sample(_NULL, rng.randint(1, 3)), rng.sample(_UN, rng.randint(0, 4)), rng.sample(_BIN, rng.randint(1, 5))]
    if "x" not in b[0]:
        b[0][0] = "x"
    return "random", b


def rand_param_names(rng, m, gapped):
    """m distinct names a<j>; consecutive a0..a(m-1) unless gapped."""
    if m == 0:
        return []
    if not gapped:
        return ["a%d" % j for j in range(m)]
    while True:
        pool = rng.sample([0, 1, 2, 3, 4, 5, 7, 10, 11, 23], m)
        if sorted(pool) != list(range(m)):
            names = ["a%d" % j for j in pool]
            if rng.random() < 0.15:
                names[rng.randrange(m)] = rng.choice(["a01", "a007", "a00"])     # parameter labels, non-canonical spelling
            return names


def rand_int(rng):
    r = rng.random()
    if r < 0.6:
        return rng.choice(_INTS)
    if r < 0.8:
        return str(rng.randint(-50, 50))
    return str(rng.randint(-(2 ** 63) + 1, 2 ** 63 - 1))


def rand_arity_seq(rng, size, has_unary):
    """arities of a random complete prefix tree with at most `size` nodes"""
    def build(budget):
        if budget <= 1:
            return [0], 1
        r = rng.random()
        if r < 0.25:
            return [0], 1
        if r < 0.5 and has_unary:
            sub, n = build(budget - 1)
            return [1] + sub, n + 1
        if budget >= 3:
            lb = rng.randint(1, budget - 2)
            l, nl = build(lb)
            rr, nr = build(budget - 1 - nl)
            return [2] + l + rr, 1 + nl + nr
        return [0], 1
    return build(size)[0]


def rand_tree(rng, basis, gapped, intp=0.3, weird=0.0):
    ar = rand_arity_seq(rng, rng.randint(1, 9), bool(basis[1]))
    leaves = [i for i, a in enumerate(ar) if a == 0]
    labels = [None] * len(ar)
    for i, a in enumerate(ar):
        if a:
            labels[i] = rng.choice(basis[a])
    m = rng.randint(0, min(4, len(leaves)))
    if gapped and m == 0:
        m = 1
    names = rand_param_names(rng, m, gapped)
    rng.shuffle(names)
    slots = leaves[:]
    rng.shuffle(slots)
    for nm, i in zip(names, slots):
        labels[i] = nm
    for i in slots[len(names):]:
        r = rng.random()
        if r < weird:
            labels[i] = rng.choice(_LEADZ + ["--5", "---12"])
        elif r < weird + intp:
            labels[i] = rng.choice([x for x in _INTS] + [str(rng.randint(-99, 99))])
        elif names and r < weird + intp + 0.15:
            labels[i] = rng.choice(names)
        else:
            labels[i] = rng.choice([b for b in basis[0] if b != "a"] or ["x"])
    return labels


# ---------------------------------------------------------------------------------------
# stream A: aifeyn_complexity(tree, param_list) directly
# ---------------------------------------------------------------------------------------

def stream_direct(ctx, N):
    rng = ctx.rng
    cases = []
    stats = dict(zero=0, negative=0, multidigit=0, permuted=0, gapped=0, unlisted=0, valueerror=0, no_symbol=0, minus_op=0)
    fixed = [([], []), (["x"], []), (["a0"], ["a0"]), (["0"], []), (["-"], []), (["+", "a0", "a2"], ["a0", "a1", "a2"]),
             (["+", "a0", "a2"], ["a0", "a1"]), (["pow", "x", "-3"], []), (["inv", "--5"], []), (["-", "-1", "-"], []),
             (["*", "12", "007"], ["a0"]), (["5"], ["5"])]
    for k in range(N):
        if k < len(fixed):
            labels, params = fixed[k]
            cases.append((list(labels), list(params), "fixed"))
            continue
        bname, basis = rand_basis(rng)
        gapped = rng.random() < 0.3
        m = rng.randint(0, 4)
        names = rand_param_names(rng, m, gapped)
        allops = basis[0] + basis[1] + basis[2]
        L = rng.randint(1, 12)
        labels = []
        for _ in range(L):
            r = rng.random()
            if r < 0.45:
                labels.append(rng.choice(allops))
            elif r < 0.70 and names:
                labels.append(rng.choice(names))
            elif r < 0.992:
                labels.append(rand_int(rng) if rng.random() < 0.9 else rng.choice(_LEADZ))
            else:
                labels.append(rng.choice(["--5", "---12", "--0"]))
        # param_list: a superset of the names (any order), or -- for correspondence only -- with names missing
        sup = list(set(names) | set(rng.sample(["a%d" % j for j in range(12)], rng.randint(0, 4))))
        rng.shuffle(sup)
        kind = "listed"
        if names and rng.random() < 0.12:
            sup = [p for p in sup if p != rng.choice(names)]
            kind = "unlisted"
        cases.append((labels, sup, kind))
    ops_lines = ["aifeyn %d %s %d %s" % (len(l), " ".join(l), len(p), " ".join(p)) for l, p, _ in cases]
    ops_lines = [" ".join(o.split()) for o in ops_lines]
    out = common.model(ops_lines)
    bad = 0
    for (labels, params, kind), line, mo in zip(cases, ops_lines, out):
        st, val = real_aifeyn(labels, params)
        used = [l for l in labels if _PAR_RE.match(l)]
        listed = all(u in params for u in used) and not any(_INT_RE.match(p) for p in params)
        proper = not any(l.startswith("--") for l in labels)
        nontriv = any(not _INT_RE.match(l) and l not in params for l in labels) and any(_INT_RE.match(l) or l in params for l in labels)
        ctx.case(("direct", tuple(labels), tuple(params)), nontrivial=nontriv)
        # ---- correspondence: model vs code
        mt = mo.split()
        if st == "ok":
            ok = len(mt) == 5 and mt[0] == "ok" and close(common.b2f(mt[1]), val)
        else:
            ok = mo == st
        if not ok:
            bad += 1
            ctx.disagree("corr:aifeyn_complexity", "%s: code=%s %r model=%s" % (line, st, val, mo))
        # ---- property oracle on the real code (only inside the property's quantifier)
        if listed and proper and labels:
            want, triple = oracle(labels, lambda l: l in params)
            if st != "ok" or not close(val, want):
                ctx.fail("aifeyn_complexity:" + _short(labels, "|" + ",".join(params)),
                         "aifeyn_complexity(%r, %r) = %s %r but k ln n + sum ln|c| = %r (k,n,|c|)=%r" % (labels, params, st, val, want, triple),
                         dict(kind="direct", labels=labels, params=params))
            if ok and st == "ok" and (int(mt[2]), int(mt[3]), [int(c) for c in mt[4].split(",")] if mt[4] != "-" else []) != triple:
                ctx.disagree("corr:model-triple-vs-formula", "%s: model=%s formula=%r" % (line, mo, triple))
            # renaming of the parameters inside param_list (a permutation of the list applied to the tree)
            if used and len(params) >= 2:
                perm = params[:]
                rng.shuffle(perm)
                ren = dict(zip(params, perm))
                st2, val2 = real_aifeyn([ren.get(l, l) for l in labels], params)
                ctx.case(None, n=1)
                if st2 != st or not close(val2, val):
                    ctx.fail("aifeyn_complexity:rename:" + _short(labels, "|" + ",".join(params)),
                             "renaming parameters %r changes aifeyn_complexity of %r from %r to %r" % (ren, labels, val, val2),
                             dict(kind="rename", labels=labels, params=params, ren=ren))
        ints = [int(l) for l in labels if _INT_RE.match(l)]
        stats["zero"] += any(c == 0 for c in ints)
        stats["negative"] += any(c < 0 for c in ints)
        stats["multidigit"] += any(abs(c) >= 10 for c in ints)
        stats["gapped"] += bool(used) and sorted(set(used)) != ["a%d" % j for j in range(len(set(used)))]
        stats["permuted"] += len(used) >= 2 and used != sorted(used)
        stats["unlisted"] += not listed
        stats["valueerror"] += st != "ok"
        stats["no_symbol"] += all(_INT_RE.match(l) or l in params for l in labels)
        stats["minus_op"] += "-" in labels
    ctx.sample(dict(op=ops_lines[min(40, len(ops_lines) - 1)], model=out[min(40, len(out) - 1)]))
    ctx.extra["direct_api"] = dict(cases=len(cases), mismatch=bad, **stats)
    return bad


# ---------------------------------------------------------------------------------------
# stream B: get_max_param / count_params
# ---------------------------------------------------------------------------------------

def stream_maxparam(ctx, N):
    from esr.generation import simplifier, generator
    import numpy as np
    rng = ctx.rng
    pieces = ["a0", "a1", "a2", "a3", "a10", "a11", "a01", "x", "(", ")", "+", "pow(", ",", "a", "sa2", "exp(", "2", "-1", "a9", "a12", "aa0"]
    lines, real = [], []
    for k in range(N):
        nf = rng.randint(0, 6) if k else 0
        funs = []
        for _ in range(nf):
            if rng.random() < 0.5:
                _, basis = rand_basis(rng)
                labels = rand_tree(rng, basis, rng.random() < 0.3)
                try:
                    s = generator.labels_to_shape(labels, basis)
                    _, _, tree = generator.check_tree(s)
                    funs.append(generator.node_to_string(0, tree, labels))
                    continue
                except Exception:
                    pass
            funs.append("".join(rng.choice(pieces) for _ in range(rng.randint(1, 8))))
        mp = simplifier.get_max_param(funs, verbose=False)
        lines.append(" ".join(("aifeyn_maxparam %d %s" % (len(funs), " ".join(funs))).split()))
        real.append(str(int(mp)))
        k2 = rng.choice([mp, mp, rng.randint(0, 5)])
        cp = simplifier.count_params(funs, k2)
        lines.append(" ".join(("aifeyn_countparams %d %d %s" % (k2, len(funs), " ".join(funs))).split()))
        real.append(",".join(str(int(c)) for c in cp) if len(cp) else "-")
        ctx.case(("maxparam", tuple(funs)), nontrivial=(mp > 0), n=2)
    for j in range(0, 130, 7):
        lines.append("aifeyn_pname %d" % j)
        real.append("a%i" % j)
    out = common.model(lines)
    bad = 0
    for l, a, b in zip(lines, real, out):
        if a != b:
            bad += 1
            ctx.disagree("corr:get_max_param/count_params", "%s: code=%s model=%s" % (l, a, b))
    ctx.extra["max_param"] = dict(ops=len(lines), mismatch=bad)
    return bad


# ---------------------------------------------------------------------------------------
# stream C: tree_to_aifeyn (single-tree API), gapless and gapped parameter names
# ---------------------------------------------------------------------------------------

def is_gapless(labels):
    ps = sorted(set(l for l in labels if _PAR_RE.match(l)))
    return ps == sorted("a%d" % j for j in range(len(ps)))


def check_single(ctx, labels, basis):
    """Property oracle for one call of tree_to_aifeyn (any parameter names, gapped or not); returns (status, value, n)."""
    st, val, n = real_tree2(labels, basis)
    if any(l.startswith("--") or (_INT_RE.match(l) and re.match(r"^-?0[0-9]", l) and set(l.lstrip("-")) != {"0"}) for l in labels):
        return st, val, n          # not integer literals of the property ('--5', '007'): correspondence only
    want, triple = oracle(labels, lambda l: bool(_PAR_RE.match(l)))
    nleaves = sum(1 for l in labels if l not in basis[1] and l not in basis[2])
    listed = sorted(set("a%d" % j for j in range(nleaves)) | set(l for l in labels if _PAR_RE.match(l)))
    pst, pipeline = real_aifeyn(labels, listed)
    good = st == "ok" and close(val, want) and n == len(labels) and pst == "ok" and close(val, pipeline)
    if not good:
        ctx.fail("tree_to_aifeyn:" + _short(labels),
                 "tree_to_aifeyn(%r) = %s %r, formula k ln n + sum ln|c| = %r (k,n,|c|)=%r, aifeyn_complexity with all parameters listed = %r"
                 % (labels, st, val, want, triple, pipeline), dict(kind="single", labels=labels, basis=basis))
    return st, val, n


def stream_single(ctx, N, Ngap):
    rng = ctx.rng
    cases = [(["+", "a0", "a2"], BASES["core_maths"], True), (["+", "a1", "2"], BASES["core_maths"], True),
             (["+", "a0", "a10"], BASES["core_maths"], True), (["pow", "x", "007"], BASES["core_maths"], False),
             (["pow", "x", "--5"], BASES["core_maths"], False), (["x"], BASES["core_maths"], False),
             (["*", "a1", "+", "a0", "-3"], BASES["ext_maths"], False), (["*", "a10", "pow", "a3", "-2"], BASES["core_maths"], True),
             (["+", "a01", "a0"], BASES["core_maths"], True)]
    for k in range(N + Ngap):
        gapped = k >= N
        _, basis = rand_basis(rng)
        cases.append((rand_tree(rng, basis, gapped, weird=0.0 if gapped else 0.04), basis, gapped))
    lines = []
    for op in ("aifeyn_tree2", "aifeyn_single4"):
        for labels, basis, _ in cases:
            toks = [op]
            for b in basis:
                toks += [str(len(b))] + list(b)
            toks += [str(len(labels))] + labels
            lines.append(" ".join(toks))
    out = common.model(lines)
    out2, out4 = out[:len(cases)], out[len(cases):]
    bad = 0
    stats = dict(gapless=0, gapped=0, gapped_single_function_differs=0, valueerror=0, with_int=0, noncanonical_names=0)

    def same(mo, st, val, n):
        mt = mo.split()
        if st == "ok":
            return len(mt) == 3 and mt[0] == "ok" and close(common.b2f(mt[1]), val) and int(mt[2]) == n
        return mo == st

    for (labels, basis, _g), line, mo, mo4 in zip(cases, lines, out2, out4):
        gapless = is_gapless(labels)
        st, val, n = check_single(ctx, labels, basis)
        nontriv = any(_PAR_RE.match(l) or _INT_RE.match(l) for l in labels) and len(labels) > 1
        ctx.case(("single", tuple(labels), json.dumps(basis)), nontrivial=nontriv)
        if not same(mo, st, val, n):
            bad += 1
            ctx.disagree("corr:tree_to_aifeyn", "%s: code=%s %r model=%s" % (line, st, val, mo))
        # single_function, steps (1)+(4)
        st4, val4, n4 = real_single4(labels, basis)
        ctx.case(None)
        if not same(mo4, st4, val4, n4):
            bad += 1
            ctx.disagree("corr:single_function-step4", "%s: code=%s %r model=%s" % (line.replace("aifeyn_tree2", "aifeyn_single4"), st4, val4, mo4))
        if gapless and st == "ok" and (st4 != "ok" or not close(val4, val)):
            ctx.fail("single_function:" + _short(labels),
                     "step (4) of single_function gives %s %r for %r (consecutive parameter names) but tree_to_aifeyn gives %r"
                     % (st4, val4, labels, val), dict(kind="single4", labels=labels, basis=basis))
        stats["gapped" if not gapless else "gapless"] += 1
        stats["gapped_single_function_differs"] += (not gapless) and st == "ok" and st4 == "ok" and not close(val, val4)
        stats["valueerror"] += st != "ok"
        stats["with_int"] += any(_INT_RE.match(l) for l in labels)
        stats["noncanonical_names"] += any(_PAR_RE.match(l) and l != "a%d" % int(l[1:]) for l in labels)
    ctx.sample(dict(op=lines[len(cases) - 1], model=out2[-1]))
    ctx.extra["single_tree_api"] = dict(cases=len(cases), mismatch=bad, **stats)
    return bad


# ---------------------------------------------------------------------------------------
# stream D: generated libraries, every line of aifeyn_<n>.txt against trees_<n>.txt
# ---------------------------------------------------------------------------------------

def generate(ctx, run, compls, P, tag):
    d = common.fresh_copy(ctx, "lib_%s_%s_P%d" % (tag, run, P))
    env = ctx.env()
    env["PYTHONPATH"] = os.pathsep.join([common.STANDIN, d, common.HARNESS])
    res = mpirun.run(P, [os.path.join(common.HARNESS, "workers", "c08_gen.py"), run, ",".join(str(c) for c in compls)],
                     timeout=1500.0, env_extra=env, cwd=d, python=common.PY)
    if not res["ok"]:
        try:
            res["tail"] = open(res["stdout"][0]).read()[-600:]
        except Exception:
            res["tail"] = ""
    shutil.rmtree(res.get("tmp", ""), ignore_errors=True)       # rank stdout files of the stand-in launcher
    return d, res


def read_library(d, run, c):
    p = os.path.join(d, "esr", "function_library", run, "compl_%d" % c)
    with open(os.path.join(p, "trees_%d.txt" % c)) as fh:
        trees = [re.findall(r"'([^']*)'", ln) for ln in fh.read().splitlines()]
    with open(os.path.join(p, "aifeyn_%d.txt" % c)) as fh:
        vals = [ln.strip() for ln in fh.read().splitlines()]
    shapes = None
    sp = os.path.join(p, "c08_shapes.json")
    if os.path.exists(sp):
        shapes = json.load(open(sp))
    return trees, vals, shapes


def check_library(ctx, d, run, c, P, single=True):
    """Returns number of model/code mismatches; property failures go to ctx.fail."""
    trees, vals, shapes = read_library(d, run, c)
    basis = BASES[run]
    tagk = "library:%s:compl=%d:P=%d" % (run, c, P)
    rp = dict(kind="library", run=run, compl=c, P=P)
    if len(trees) != len(vals):
        ctx.fail(tagk + ":length", "trees_%d.txt has %d lines, aifeyn_%d.txt has %d" % (c, len(trees), c, len(vals)), rp)
    nbad = 0
    for i, (labels, v) in enumerate(zip(trees, vals)):
        try:
            fv = float(v)
        except ValueError:
            fv = float("nan")
        want, triple = oracle(labels, lambda l: bool(_PAR_RE.match(l)))
        ctx.case(("lib", run, tuple(labels)), nontrivial=len(labels) > 1)
        if not labels or not close(fv, want):
            nbad += 1
            if nbad <= 3:
                ctx.fail(tagk + ":line=%d" % i, "line %d of aifeyn_%d.txt is %s but line %d of trees_%d.txt is %r with k ln n + sum ln|c| = %r"
                         % (i, c, v, i, c, labels, want), dict(rp, line=i))
        elif single:
            st, sv, n = real_tree2(labels, basis)
            ctx.case(None)
            if st != "ok" or not close(sv, fv):
                ctx.fail("library-vs-single:%s:%s" % (run, _short(labels)),
                         "tree_to_aifeyn(%r) = %s %r but the library stores %r" % (labels, st, sv, fv), dict(kind="single", labels=labels, basis=basis))
    # the writer loop against the model, from what shape_to_functions really returned
    mism = 0
    if shapes is not None:
        toks = ["aifeyn_writer", str(len(shapes))]
        for s in shapes:
            toks += [str(len(s["all_fun"]))] + s["all_fun"]
            toks += [str(len(s["all_tree"]))]
            for t in s["all_tree"]:
                toks += [str(len(t))] + t
            toks += ["1", str(len(s["extra_tree"]))]
            for t in s["extra_tree"]:
                toks += [str(len(t))] + t
        if any((" " in t or t == "") for t in toks):
            ctx.disagree("corr:writer", "%s: a label or function string contains a blank" % tagk)
            return 1
        out = common.model([" ".join(toks)])[0]
        ma, mt = out.split("|") if "|" in out else ("", "")
        ma = ma.split(",") if ma else []
        mt = [x.split(",") for x in mt.split(";")] if mt else []
        if mt != trees:
            mism += 1
            k = next((i for i, (a, b) in enumerate(zip(mt, trees)) if a != b), min(len(mt), len(trees)))
            ctx.disagree("corr:writer", "%s: model tree list differs from trees_%d.txt at line %d (%d vs %d lines)" % (tagk, c, k, len(mt), len(trees)))
        if len(ma) != len(vals) or any((not a.isdigit()) or not close(common.b2f(a), float(v)) for a, v in zip(ma, vals)):
            mism += 1
            k = next((i for i, (a, v) in enumerate(zip(ma, vals)) if (not a.isdigit()) or not close(common.b2f(a), float(v))), min(len(ma), len(vals)))
            ctx.disagree("corr:writer", "%s: model code lengths differ from aifeyn_%d.txt at line %d (%d vs %d lines)" % (tagk, c, k, len(ma), len(vals)))
    else:
        ctx.disagree("corr:writer", "%s: no shape record from the worker" % tagk)
        mism += 1
    return mism


def stream_libraries(ctx, plan):
    """plan: list of (run, [compl...], P)"""
    results = {}

    def job(run, compls, P):
        results[(run, P)] = generate(ctx, run, compls, P, "g")

    ths = [threading.Thread(target=job, args=a) for a in plan]
    for t in ths:
        t.start()
    for t in ths:
        t.join()
    mism = 0
    summ = []
    for run, compls, P in plan:
        d, res = results[(run, P)]
        if not res["ok"]:
            raise RuntimeError("generation of %s %r with %d ranks failed: %s %s" % (run, compls, P, res.get("error"), res.get("tail", "")))
        for c in compls:
            before = len(ctx.failures)
            m = check_library(ctx, d, run, c, P, single=(P == 1))
            mism += m
            trees, vals, shapes = read_library(d, run, c)
            summ.append(dict(run=run, compl=c, P=P, lines=len(trees), extra=sum(len(s["extra_tree"]) for s in shapes or []),
                             with_int=sum(1 for t in trees if any(_INT_RE.match(l) for l in t)),
                             failures=len(ctx.failures) - before, model_mismatch=m))
    # same files for different rank counts
    for run in sorted(set(r for r, _, _ in plan)):
        ps = [(P, results[(run, P)][0], cs) for r, cs, P in plan if r == run]
        for (P1, d1, c1), (P2, d2, c2) in zip(ps, ps[1:]):
            for c in sorted(set(c1) & set(c2)):
                a = read_library(d1, run, c)
                b = read_library(d2, run, c)
                if a[0] != b[0] or a[1] != b[1]:
                    ctx.notes.append("trees/aifeyn files of %s compl %d differ between P=%d and P=%d (alignment holds in both)" % (run, c, P1, P2))
    ctx.extra["libraries"] = summ
    return mism


# ---------------------------------------------------------------------------------------

# ---------------------------------------------------------------------------------------
# anchored-line coverage of the in-process functions, and the second call site (single_function)
# ---------------------------------------------------------------------------------------

class LineCov(object):
    """Which source lines of the anchored functions ran in this process (sys.monitoring, one hit per line)."""

    def __init__(self):
        self.hits = set()
        self.funcs = []
        self.on = False

    def start(self):
        try:
            from esr.generation import generator, simplifier
            from esr.fitting import fit_single
            self.funcs = [generator.aifeyn_complexity, simplifier.get_max_param, simplifier.count_params,
                          fit_single.tree_to_aifeyn, generator.labels_to_shape]
            mon = sys.monitoring
            self.tool = mon.PROFILER_ID
            mon.use_tool_id(self.tool, "c08")

            def cb(code, line):
                self.hits.add((code.co_name, line))
                return mon.DISABLE

            mon.register_callback(self.tool, mon.events.LINE, cb)
            for f in self.funcs:
                mon.set_local_events(self.tool, f.__code__, mon.events.LINE)
            self.on = True
        except Exception as e:                      # coverage is informative only
            self.err = repr(e)

    def stop(self):
        if not self.on:
            return dict(available=False, reason=getattr(self, "err", "?"))
        mon = sys.monitoring
        out = {}
        for f in self.funcs:
            code = f.__code__
            mon.set_local_events(self.tool, code, 0)
            lines = sorted(set(l for _, _, l in code.co_lines() if l is not None and l > code.co_firstlineno))
            miss = [l for l in lines if (code.co_name, l) not in self.hits]
            out[code.co_name] = dict(file=os.path.relpath(code.co_filename, os.path.dirname(os.path.dirname(os.path.dirname(code.co_filename)))),
                                     lines=len(lines), not_executed=miss)
        mon.register_callback(self.tool, mon.events.LINE, None)
        mon.free_tool_id(self.tool)
        out["note"] = "generate_equations runs in the rank processes of the library stream and is not traced here"
        return out


CALL_SITE_RULES = {"single_function": "maxParamOfPrinted", "tree_to_aifeyn": "paramLikeLabels"}


def single_function_call_site(ctx):
    """Static tie of the two single-tree call sites of aifeyn_complexity in fit_single.py, on NORMALISED source
    (harness/extractors/aifeyn.py `call_sites`: forward symbolic evaluation of the function body, so renamed locals,
    hoisted or dropped temporaries, loop-vs-comprehension and string spelling do not matter):

    * single_function must pass the unmodified `labels` and ['a%i'%j for j in range(get_max_param([node_to_string(0,
      check_tree(labels_to_shape(labels, basis_functions))[2], labels)]))] -- exactly what real_single4 composes from the
      real functions and what `singleFunctionAifeyn` models.  single_function itself is not run by this check, so an
      unrecognised or different rule here is a broken obligation.
    * tree_to_aifeyn must pass `labels` and [l for l in labels if l.startswith('a') and l[1:].isdigit()] (`treeToAifeyn`).
      This function IS run (stream C: model correspondence + the property's oracle on every case), so a shape the
      analysis cannot read is not a disagreement: the dynamic tie decides (returned as 'dynamic-only'); a shape it
      reads as a DIFFERENT rule is one.
    Returns (number of broken static obligations, set of functions left to the dynamic tie)."""
    from extractors import aifeyn as ax
    res = ax.call_sites(ctx.stage)
    bad, dynamic = 0, set()
    for name, want in CALL_SITE_RULES.items():
        r = res.get(name, {})
        r["expected"] = want
        if r.get("rule") == want:
            continue
        if name == "tree_to_aifeyn" and "error" in r:
            r["tie"] = "dynamic-only (corr:tree_to_aifeyn and the oracle of stream C)"
            dynamic.add(name)
            continue
        bad += 1
        ctx.disagree("corr:%s-call-site" % name, "parameter rule %s expected, found %s" % (want, r.get("rule") or r.get("error")))
    ctx.extra["call_sites"] = res
    return bad, dynamic


def run(ctx):
    drift = extract.drifted(ctx.proof.get("extract", {}), MODELLED)
    deep = (not ctx.quick) or bool(drift)
    ctx.extra["source_drift"] = drift
    if not ctx.proof.get("model_ok"):
        ctx.disagree("corr:model", "executable model did not build; correspondence not run")
    scale = 10 if deep else 1
    b = [0, 0, 0, 0, 0]
    have_model = bool(ctx.proof.get("model_ok"))
    b[4], dynamic_sites = single_function_call_site(ctx)
    if dynamic_sites:
        deep = True                      # the static reading is replaced by the dynamic tie at escalated depth
        scale = 10
    cov = LineCov()
    cov.start()
    if have_model:
        b[0] = stream_direct(ctx, 20000 * scale)
        b[1] = stream_maxparam(ctx, 1500 * scale)
        b[2] = stream_single(ctx, 4500 * scale, 1200 * scale)
    else:
        _oracle_only(ctx, 6000 * scale)
    ctx.extra["anchored_line_coverage"] = cov.stop()
    if deep:
        plan = [("core_maths", [1, 2, 3, 4, 5], 1), ("core_maths", [1, 2, 3, 4, 5], 3), ("ext_maths", [1, 2, 3, 4, 5], 1),
                ("ext_maths", [1, 2, 3, 4, 5], 3), ("keep_duplicates", [1, 2, 3, 4], 1), ("osc_maths", [1, 2, 3, 4], 1),
                ("base10_maths", [1, 2, 3, 4], 1), ("base_e_maths", [1, 2, 3, 4], 3)]
    else:
        plan = [("core_maths", [1, 2, 3, 4], 1), ("core_maths", [1, 2, 3, 4], 3), ("ext_maths", [1, 2, 3, 4], 1), ("ext_maths", [1, 2, 3, 4], 3)]
    if have_model:
        b[3] = stream_libraries(ctx, plan)
    else:
        _libraries_oracle_only(ctx, plan)
    if dynamic_sites and (not have_model or b[2]):
        b[4] += 1
        ctx.disagree("corr:tree_to_aifeyn-call-site", "call site not readable (%s) and the dynamic tie of tree_to_aifeyn is not clean"
                     % ctx.extra["call_sites"]["tree_to_aifeyn"].get("error"))
    ctx.extra["corr_obligations"] = 5
    ctx.extra["corr_discharged"] = sum(1 for x in b if x == 0) if have_model else int(b[4] == 0)
    ctx.extra["bounds"] = dict(label_list_length="1..12 (direct), <=9 nodes (single-tree API)", integers="|c| < 2^63",
                               library_complexity=max(max(c) for _, c, _ in plan), ranks=[1, 3])
    if ctx.notes:
        ctx.extra["notes"] = ctx.notes


def _oracle_only(ctx, N):
    """Failing-input search when the model executable is unavailable: the property oracle alone on the real code."""
    rng = ctx.rng
    for k in range(N):
        _, basis = rand_basis(rng)
        labels = rand_tree(rng, basis, k % 3 == 0)
        check_single(ctx, labels, basis)
        ctx.case(("single", tuple(labels)), nontrivial=len(labels) > 1)
        params = ["a%d" % j for j in range(5)]
        st, val = real_aifeyn(labels, params)
        want, triple = oracle(labels, lambda l: l in params)
        if st != "ok" or not close(val, want):
            ctx.fail("aifeyn_complexity:" + _short(labels, "|" + ",".join(params)),
                     "aifeyn_complexity(%r, %r) = %s %r but k ln n + sum ln|c| = %r" % (labels, params, st, val, want),
                     dict(kind="direct", labels=labels, params=params))


def _libraries_oracle_only(ctx, plan):
    for run, compls, P in plan[:2]:
        d, res = generate(ctx, run, compls, P, "o")
        if res["ok"]:
            for c in compls:
                trees, vals, _ = read_library(d, run, c)
                for i, (labels, v) in enumerate(zip(trees, vals)):
                    want, _t = oracle(labels, lambda l: bool(_PAR_RE.match(l)))
                    if not close(float(v), want):
                        ctx.fail("library:%s:compl=%d:P=%d:line=%d" % (run, c, P, i), "line %d: %s vs %r -> %r" % (i, v, labels, want),
                                 dict(kind="library", run=run, compl=c, P=P, line=i))
                        break


def replay(ctx, data):
    rp = data["replay"]
    kind = rp["kind"]
    if kind == "direct":
        st, val = real_aifeyn(rp["labels"], rp["params"])
        want, triple = oracle(rp["labels"], lambda l: l in rp["params"])
        print("aifeyn_complexity(%r, %r) = %s %r ; formula %r (k,n,|c|)=%r" % (rp["labels"], rp["params"], st, val, want, triple))
        return st == "ok" and close(val, want)
    if kind == "rename":
        st, val = real_aifeyn(rp["labels"], rp["params"])
        st2, val2 = real_aifeyn([rp["ren"].get(l, l) for l in rp["labels"]], rp["params"])
        print("before renaming %r, after %r" % (val, val2))
        return st == st2 and (st != "ok" or close(val, val2))
    if kind == "single":
        c2 = common.Ctx("C08", "quick", 0)
        st, val, n = check_single(c2, rp["labels"], rp["basis"])
        print("tree_to_aifeyn(%r) = %s %r" % (rp["labels"], st, val))
        for f in c2.failures:
            print("  " + f["what"])
        return not c2.failures
    if kind == "single4":
        st, val, n = real_tree2(rp["labels"], rp["basis"])
        st4, val4, n4 = real_single4(rp["labels"], rp["basis"])
        print("tree_to_aifeyn(%r) = %s %r ; single_function step (4) = %s %r" % (rp["labels"], st, val, st4, val4))
        return st4 == st and (st != "ok" or close(val, val4))
    if kind == "library":
        ctx.tmp = ctx.tmp or os.path.dirname(ctx.stage)
        d, res = generate(ctx, rp["run"], [rp["compl"]], rp["P"], "r")
        if not res["ok"]:
            print("generation failed: %s" % res.get("error"))
            return False
        c2 = common.Ctx("C08", "quick", 0)
        c2.stage, c2.tmp, c2.proof = ctx.stage, ctx.tmp, {}
        trees, vals, _ = read_library(d, rp["run"], rp["compl"])
        ok = len(trees) == len(vals)
        for i, (labels, v) in enumerate(zip(trees, vals)):
            want, _t = oracle(labels, lambda l: bool(_PAR_RE.match(l)))
            if not close(float(v), want):
                print("line %d: aifeyn %s, tree %r, formula %r" % (i, v, labels, want))
                ok = False
                if i >= rp.get("line", 0):
                    break
        return ok
    return True
