"""C07 — parameter code length and zero-snapping follow the MDL formula (esr/fitting/test_all_Fisher.py:convert_params)."""
import json, math, os, sys, time
import common, extract

LEAN_MODULE = ["ESRVerif.Props.C07", "ESRVerif.Props.C07c"]
LEVEL = "proof"
LEVEL_TEXT = ("Lean theorems over the hand model of convert_params lines 110-239 (likelihood closure, first Hessian diagonal and outcome of the "
              "step-size fallback are inputs), proved over extended reals (finite real | +inf | -inf | NaN with IEEE propagation) for every "
              "parameter vector and every positive finite curvature: code length formula, kept-iff-not-below-threshold when the snapped "
              "likelihood is finite, reported parameters carry the zeros, reported nll is the likelihood at the reported parameters, "
              "bad curvature -> NaN, k=0 -> 0, consistency in the subset-search branch, no Python error reachable.  The decision sites and "
              "the code-length expression are regenerated from the source; the model is tied to the real routine by correspondence on "
              "linear-Gaussian and pole-type models with the Hessian the routine really used captured by wrapping numdifftools.Hessian.  "
              "Props/C07c (row and call independence of the stage): the in-place writes of main's loop and of convert_params are regenerated with "
              "their origins (fresh | the row's own stage-1 slot | shared; harness/extractors/_norm_c05.py joined at the call sites); "
              "fisher_rows_do_not_share_state is a decide over that table, fisherStage_eq_fisherFile proves that the loop as written with the "
              "in-place snap is Model/Stages.fisherRow mapped over (function, stage-1 row) for every rank count, with the retry after NameError "
              "computed on the slot as the first attempt left it (retry_computes; retry_fresh_of_slot_untouched); tied to the code by running the "
              "real test_all_Fisher.main on synthetic libraries under base/reversed/shuffled/one-removed/2- and 3-rank schedules and comparing "
              "every output row with the base schedule, with fresh-copy calls of the routine (oracle-checked) and with the fisherFile model.")
TECHNIQUE = ("Lean 4 proof over a NumOps-polymorphic hand model (Float instance executable, XR-over-R instance for proofs, Mathlib for log/sqrt) "
             "+ regenerated expression AST / tests + model-code correspondence + independent closed-form oracle on the real code")
RULE = ("[family] libraries of 10-13 functions on one data set (linear below/at/above threshold, forced non-finite likelihoods, exact-threshold, "
        "first-Hessian-unusable, pole, no-parameter, nan/inf stage-1 likelihood, NameError before / behind the snap) x 6 schedules; [calls] "
        "cases drawn from VERIF_SEED: (model family, data set, theta with each coordinate placed below/near/at/above the snapping threshold "
        "|theta|sqrt(F/12)=1, max_param, optional forced non-finite likelihood on chosen zero patterns, optional perturbation of the Hessians "
        "numdifftools returns); distinct = (function string, decision vector of the coordinates, branch taken, injections); non-trivial = at "
        "least one coordinate below threshold or a fallback/NaN/search branch")
EXPLANATION = LEVEL_TEXT
TRUSTED = ["harness/extractors/_norm_c05.py freshness rules; callees other than convert_params are assumed not to write their array arguments; "
           "the scripted NameError (raised by the likelihood before / behind the snap) stands for 'function not implemented in numpy'",
           "hand model ESRVerif/Model/Codelen.lean of convert_params lines 110-239 (tied by correspondence incl. the sequence of likelihood evaluations)",
           "harness/extractors/codelen.py (expression and test extraction)",
           "numdifftools.Hessian, scipy.stats.mode and the .3e/.1e rounding of the fallback selection (not modelled; outcome captured and passed to the model)",
           "IEEE rounding/overflow and signed zeros are not modelled by the extended-real instance; numpy log vs libm log compared to 1e-9"]
ASSUMPTIONS = ["C07c: no retry raises (Props/C14c NoCrash), stage-1 table has one row per function and >= 4 parameter columns",
               "theta_ML is a float ndarray of length >= nparam, nparam <= max_param (as main passes it)",
               "the likelihood closure is a deterministic function of the parameter vector",
               "the argument negloglike is the likelihood at theta_ML (for the clause 'reported nll is the likelihood at the reported parameters' when nothing is snapped)"]
# tables whose committed version may stand in as a hand-written model when the translator cannot read the source;
# value = the correspondence that then ties it to the code (common.prove / common.decide)
FALLBACK = {'Codelen': 'real convert_params with captured Hessians vs the Lean codelen model (decisions exact, magnitudes 1e-9)'}
MODELLED = ["test_all_Fisher.py:convert_params", "test_all_Fisher.py:main"]

BASES = ["x", "1", "x**2", "x**3", "inv(x)", "sqrt(x)", "log(x)"]
SCALES = [0.0, 1e-6, 0.05, 0.3, 0.9, 0.999, 1 - 1e-12, 1.0, 1 + 1e-12, 1.001, 1.1, 3.0, 100.0, 1e6]
BAND = 1e-9            # |N-1| below this: the decision belongs to rounding, either answer accepted by the oracle


def _exact(F):
    """sqrt(F/12) and sqrt(12/F) are both exact (F/12 a small power of 4): no rounding ambiguity at the threshold"""
    q = F / 12.0
    return q in (1.0 / 64, 1.0 / 16, 0.25, 1.0, 4.0, 16.0, 64.0)


# --------------------------------------------------------------------------------------------------------------
# instrumented call of the real routine
# --------------------------------------------------------------------------------------------------------------

class _Rec(object):
    def __init__(self):
        self.hcalls = []        # (kwargs summary, matrix) per Hessian evaluation
        self.post = []          # parameter vectors of the likelihood calls made outside Hessian evaluations
        self.fop = None
        self.in_h = False
        self.on = False
        self.hinj = None
        self.pattern = None


def _special(name):
    return {"inf": float("inf"), "ninf": float("-inf"), "nan": float("nan")}[name]


def _env(ctx):
    """imports from the staged copy + patched numdifftools namespace (cached on ctx)"""
    if getattr(ctx, "_c07", None):
        return ctx._c07
    import types
    import numpy as np
    import numdifftools as real_nd
    import esr.fitting.test_all_Fisher as taf
    from esr.fitting.likelihood import GaussLikelihood
    rec = _Rec()

    class HessianWrap(object):
        def __init__(self, fop, **kw):
            rec.fop = fop
            self.kw = kw
            self.h = real_nd.Hessian(fop, **kw)

        def __call__(self, theta):
            rec.in_h = True
            try:
                H = np.array(self.h(theta), dtype=float)
            finally:
                rec.in_h = False
            k = len(rec.hcalls)
            inj = rec.hinj
            if inj and (inj["which"] == "all" or (inj["which"] == "first" and k == 0) or (inj["which"] == "fallback" and k > 0)
                        or (inj["which"] == "first+some" and (k == 0 or k % 3 == inj.get("mod", 1)))):
                H = H.copy()
                j = inj["idx"]
                v = inj["value"]
                if v == "set":
                    H[j, j] = inj["set"]
                else:
                    H[j, j] = {"zero": 0.0, "neg": -abs(H[j, j]) - 1.0}.get(v) if v in ("zero", "neg") else _special(v)
            if inj and inj.get("jitter") and k > 0:
                H = H * (1.0 + inj["jitter"] * k)
            rec.hcalls.append((dict(method=self.kw.get("method"), step=None if "step" not in self.kw else [float(s) for s in np.atleast_1d(self.kw["step"])]), H.copy()))
            return H

    class Lik(GaussLikelihood):
        """the real Gaussian likelihood; optionally non-finite on prescribed zero patterns (kept out of Hessian evaluations)"""
        def negloglike(self, a, eq_numpy, **kw):
            a = np.atleast_1d(a)
            v = GaussLikelihood.negloglike(self, a, eq_numpy, **kw)
            if rec.pattern and not rec.in_h:
                key = ",".join(str(i) for i in range(len(a)) if a[i] == 0.0)
                if key in rec.pattern:
                    v = _special(rec.pattern[key])
            if rec.on and not rec.in_h:
                rec.post.append([float(t) for t in a])
            return v

    taf.nd = types.SimpleNamespace(Hessian=HessianWrap)
    ctx._c07 = dict(np=np, taf=taf, Lik=Lik, rec=rec, liks={}, real_nd=real_nd)
    return ctx._c07


def _likelihood(ctx, env, data):
    key = json.dumps(data, sort_keys=True)
    if key in env["liks"]:
        return env["liks"][key]
    np = env["np"]
    d = os.path.join(ctx.tmp, "c07data")
    os.makedirs(d, exist_ok=True)
    name = "d%d.txt" % len(env["liks"])
    np.savetxt(os.path.join(d, name), np.c_[data["x"], data["y"], data["s"]], fmt="%.17g")
    lik = env["Lik"](name, "c07", data_dir=d)
    env["liks"][key] = lik
    return lik


def run_real(ctx, case):
    """calls the real convert_params on the case; returns everything observed"""
    import io, contextlib
    env = _env(ctx)
    np, taf, rec = env["np"], env["taf"], env["rec"]
    lik = _likelihood(ctx, env, case["data"])
    n, mp = case["n"], case["max_param"]
    fcn, eq, integ = lik.run_sympify(case["fcn"])
    import sympy
    from esr.fitting.sympy_symbols import x as sx
    syms = list(sympy.symbols(" ".join("a%d" % i for i in range(n)), real=True)) if n > 1 else ([sympy.symbols("a0", real=True)] if n == 1 else [])
    eq_numpy = sympy.lambdify([sx] + syms, eq, modules=["numpy"])
    theta = np.zeros(mp)
    theta[:n] = case["theta"]
    rec.hcalls, rec.post, rec.fop, rec.in_h = [], [], None, False
    rec.pattern, rec.hinj = None, None
    nll_in = float(lik.negloglike(theta[:n], eq_numpy))
    rec.pattern, rec.hinj = case.get("pattern"), case.get("hinj")
    out = dict(nll_in=nll_in, raised=None)
    rec.on = True
    try:
        with contextlib.redirect_stdout(io.StringIO()), np.errstate(all="ignore"):
            params, nll, deriv, codelen = taf.convert_params(fcn, eq, integ, theta.copy(), lik, nll_in, max_param=mp)
        out.update(params=[float(p) for p in params], nll=float(nll), deriv=[float(d) for d in deriv], codelen=float(codelen))
    except BaseException as e:                       # incl. SystemExit from quit()
        out["raised"] = "%s: %s" % (type(e).__name__, e)
    finally:
        rec.on = False
    out["hcalls"] = [(kw, H.tolist()) for kw, H in rec.hcalls]
    out["post"] = [list(v) for v in rec.post]
    # the likelihood at every zero pattern of theta (through the same closure the routine used)
    tab = {}
    if rec.fop is not None:
        with np.errstate(all="ignore"):
            for m in range(1 << n):
                v = np.array(case["theta"], dtype=float)
                for i in range(n):
                    if m >> i & 1:
                        v[i] = 0.0
                tab[tuple(float(t) for t in v)] = float(rec.fop(v))
    out["table"] = tab
    rec.pattern, rec.hinj = None, None
    return out


# --------------------------------------------------------------------------------------------------------------
# case generation
# --------------------------------------------------------------------------------------------------------------

def _dataset(rng, kind="lin"):
    N = rng.randint(5, 40)
    x = sorted(round(rng.uniform(0.3, 4.0), 6) for _ in range(N))
    s0 = 10.0 ** rng.uniform(-2.0, 1.5)
    if rng.random() < 0.5:
        s = [s0] * N
    else:
        s = [s0 * rng.uniform(0.5, 2.0) for _ in range(N)]
    return dict(x=x, y=[0.0] * N, s=s)


def _basis_val(b, x):
    return {"x": x, "1": 1.0, "x**2": x * x, "x**3": x ** 3, "inv(x)": 1.0 / x, "sqrt(x)": math.sqrt(x), "log(x)": math.log(x)}[b]


def _analytic_F(case):
    d = case["data"]
    return [sum(_basis_val(b, x) ** 2 / s ** 2 for x, s in zip(d["x"], d["s"])) for b in case["bases"]]


def gen_linear(rng, datasets, inject=None):
    n = rng.choice([1, 2, 2, 3, 3, 4, 4])
    bases = rng.sample(BASES, n)
    fcn = "+".join(("a%d" % i) if b == "1" else "a%d*%s" % (i, b) for i, b in enumerate(bases))
    data = dict(rng.choice(datasets))
    case = dict(kind="linear", fcn=fcn, bases=bases, n=n, max_param=rng.choice([n, 4, 4, 4]), data=data)
    F = _analytic_F(case)
    theta, cls = [], []
    for i in range(n):
        c = rng.choice(SCALES)
        if inject in ("pattern",) and i < 2:
            c = rng.choice([1e-6, 0.05, 0.3, 0.9])                 # at least two snappable
        while inject == "pattern" and c == 0.0:
            c = rng.choice(SCALES)                                 # forced patterns are keyed on exact zeros: keep theta non-zero
        sgn = rng.choice([-1.0, 1.0])
        theta.append(sgn * c * math.sqrt(12.0 / F[i]) + 0.0)
        cls.append(c)
    case["theta"], case["scales"] = theta, cls
    # data: the model at theta plus noise (the Hessian of a linear model does not depend on y)
    case["data"]["y"] = [sum(t * _basis_val(b, x) for t, b in zip(theta, bases)) + s * rng.gauss(0, 1)
                         for x, s in zip(data["x"], data["s"])]
    if inject == "pattern":
        snap = [i for i in range(n) if abs(cls[i]) < 1]
        pat = {",".join(map(str, snap)): rng.choice(["inf", "inf", "nan", "ninf"])}
        for m in range(1, 1 << len(snap)):
            sub = [snap[j] for j in range(len(snap)) if m >> j & 1]
            if len(sub) < len(snap) and rng.random() < 0.55:
                pat[",".join(map(str, sub))] = rng.choice(["inf", "inf", "nan", "ninf"])
        case["pattern"] = pat
        case["kind"] = "linear+pattern"
    if inject == "exact":
        # curvature of one coordinate forced to a value with exact square roots, theta exactly at / one ulp off the threshold
        j = rng.randrange(n)
        Fj = rng.choice([12.0, 3.0, 48.0, 0.75, 192.0])
        t = math.sqrt(12.0 / Fj)
        tj = rng.choice([t, t, t, math.nextafter(t, 0.0), math.nextafter(t, 10.0)]) * rng.choice([-1.0, 1.0])
        case["theta"][j] = tj
        case["hinj"] = dict(which="all", idx=j, value="set", set=Fj)
        case["kind"] = "linear+exact-threshold"
    if inject == "hessian":
        case["hinj"] = dict(which=rng.choice(["first", "first", "first", "all", "first+some"]), idx=rng.randrange(n),
                            value=rng.choice(["zero", "neg", "nan", "inf", "ninf"]), mod=rng.randrange(3))
        if case["hinj"]["which"] == "first" and rng.random() < 0.5:
            # spread the fallback Hessians: distinct at .3e (-> .1e retry, lines 159-177) or distinct even at .1e (-> NaN, line 167)
            case["hinj"]["jitter"] = rng.choice([2e-3, 2e-3, 0.7])
        case["kind"] = "linear+hessian"
    return case


def gen_pole(rng, datasets):
    """models whose likelihood is infinite once a parameter is set to zero"""
    data = dict(rng.choice(datasets))
    X, S = data["x"], data["s"]
    w = sum(1.0 / s ** 2 for s in S)                        # sum 1/sigma^2
    thr = math.sqrt(12.0 / w)                                # threshold scale of a constant-column parameter
    t = rng.choice(["inv1", "inv2", "ratio", "inv3", "logamp"])
    big = lambda: rng.choice([-1, 1]) * rng.choice([3.0, 10.0, 100.0]) / thr       # 1/a with |a| sqrt(F/12) = thr'/|a| < 1
    if t == "inv1":
        fcn, theta = "a0*x+inv(a1)", [rng.uniform(0.5, 2), big()]
    elif t == "inv2":
        fcn, theta = "a0*x+inv(a1)+inv(a2)", [rng.uniform(0.5, 2), big(), big()]
    elif t == "inv3":
        fcn, theta = "inv(a0)+inv(a1)+inv(a2)+a3*x", [big(), big(), big(), rng.uniform(0.5, 2)]
    elif t == "ratio":
        a2 = rng.uniform(0.5, 2.0)
        fcn, theta = "a0*x+a1/a2", [rng.uniform(0.5, 2), rng.choice([-1, 1]) * rng.choice([0.01, 0.1, 0.3]) * thr * a2, a2]
    else:
        fcn, theta = "a0+log(a1)*a2", [rng.uniform(0.5, 2), rng.uniform(0.3, 3.0), rng.choice([0.01, 0.2]) * thr]
    n = len(theta)
    f = {"a0*x+inv(a1)": lambda x, a: a[0] * x + 1 / a[1],
         "a0*x+inv(a1)+inv(a2)": lambda x, a: a[0] * x + 1 / a[1] + 1 / a[2],
         "inv(a0)+inv(a1)+inv(a2)+a3*x": lambda x, a: 1 / a[0] + 1 / a[1] + 1 / a[2] + a[3] * x,
         "a0*x+a1/a2": lambda x, a: a[0] * x + a[1] / a[2],
         "a0+log(a1)*a2": lambda x, a: a[0] + math.log(abs(a[1])) * a[2]}[fcn]
    data["y"] = [f(x, theta) + 1e-3 * s * rng.gauss(0, 1) for x, s in zip(X, S)]
    return dict(kind="pole:" + t, fcn=fcn, n=n, max_param=rng.choice([n, 4]), data=data, theta=theta)


def gen_noparam(rng, datasets):
    data = dict(rng.choice(datasets))
    fcn = rng.choice(["x", "x**2", "inv(x)", "sqrt(x)"])
    data["y"] = [s * rng.gauss(0, 1) for s in data["s"]]
    return dict(kind="noparam", fcn=fcn, n=0, max_param=rng.choice([1, 4]), data=data, theta=[])


def gen_degenerate(rng, datasets):
    if rng.random() < 0.2:
        return gen_noparam(rng, datasets)
    data = dict(rng.choice(datasets))
    t = rng.choice(["flat", "nancurv", "flat2"])
    if t == "flat":
        fcn, theta = "a0*x+0*a1", [rng.uniform(0.5, 2), rng.uniform(0.5, 2)]
    elif t == "flat2":
        fcn, theta = "a0*x+a1+0*a2", [rng.uniform(0.5, 2), rng.uniform(0.5, 2), rng.uniform(-2, 2)]
    else:
        fcn, theta = "a0*x+inv(a1)", [rng.uniform(0.5, 2), 0.0]          # likelihood infinite at theta itself: NaN curvature
    data["y"] = [theta[0] * x + s * rng.gauss(0, 1) for x, s in zip(data["x"], data["s"])]
    return dict(kind="degenerate:" + t, fcn=fcn, n=len(theta), max_param=4, data=data, theta=theta)


# --------------------------------------------------------------------------------------------------------------
# the model side
# --------------------------------------------------------------------------------------------------------------

def _starts(n, mp):
    return [int(i * mp - (i - 1) * i / 2) for i in range(n)]


def _same(a, b):
    return (a != a and b != b) or a == b


def _close(a, b, scale=1.0, tol=1e-9):
    if a != a or b != b:
        return a != a and b != b
    if math.isinf(a) or math.isinf(b):
        return a == b
    return abs(a - b) <= tol * max(1.0, abs(a), abs(b), scale)


def model_op(case, real):
    """op line for the model from the observed Hessian(s); also returns the independent reading of the fallback outcome"""
    f = common.f2b
    n, mp = case["n"], case["max_param"]
    H0 = real["hcalls"][0][1]
    F0 = [H0[i][i] for i in range(n)]
    st = _starts(n, mp)
    fb = "nan"
    Fused = list(F0)
    if not real["raised"] and len(real["hcalls"]) > 1:
        Fd = [real["deriv"][s] for s in st]
        if not all(_same(a, b) for a, b in zip(Fd, F0)):
            fb = "sel:" + ",".join(f(v) for v in Fd)
            Fused = Fd
        else:
            Fused = None                                     # fallback ran and selected nothing
    tab = ";".join(":".join(f(t) for t in v) + "=" + f(val) for v, val in real["table"].items()) or "-"
    op = "codelen_cp %d %s %s %s %s %s" % (mp, ",".join(f(t) for t in case["theta"]), ",".join(f(v) for v in F0), fb, f(real["nll_in"]), tab)
    return op, F0, Fused


def compare(case, real, line, F0):
    """model output line vs the observed behaviour; returns (list of differences, parsed model output)"""
    diffs = []
    tk = line.split()
    if real["raised"]:
        if tk[0] != "error":
            diffs.append("code raised %s, model: %s" % (real["raised"], line[:80]))
        return diffs, None
    if tk[0] != "ok":
        return ["code returned normally, model: %s" % line[:120]], None
    _, fbk, branch, k, kept, nll, cl, params, evals = tk
    m = dict(fallback=fbk == "1", branch=branch, k=int(k), kept=kept, nll=common.b2f(nll), codelen=common.b2f(cl),
             params=[common.b2f(p) for p in params.split(",")] if params != "-" else [],
             evals=[] if evals == "-" else [[] if e == "e" else [int(i) for i in e.split(".")] for e in evals.split(";")])
    if m["fallback"] != (len(real["hcalls"]) > 1):
        diffs.append("fallback decision: code made %d Hessian evaluations, model needsFallback=%s (F0=%r)" % (len(real["hcalls"]), m["fallback"], F0))
    if m["params"] != real["params"] and not all(_same(a, b) for a, b in zip(m["params"], real["params"])) or len(m["params"]) != len(real["params"]):
        diffs.append("params: code %r model %r" % (real["params"], m["params"]))
    if not _same(m["nll"], real["nll"]):
        diffs.append("nll: code %r model %r" % (real["nll"], m["nll"]))
    scale = sum(abs(math.log(abs(t))) for t in case["theta"] if t != 0 and math.isfinite(t)) + 10.0
    if not _close(m["codelen"], real["codelen"], scale):
        diffs.append("codelen: code %r model %r (branch %s)" % (real["codelen"], m["codelen"], branch))
    # the sequence of likelihood evaluations after the Hessian (loop structure, breaks)
    want = []
    for idx in m["evals"]:
        v = list(case["theta"])
        for i in idx:
            v[i] = 0.0
        want.append(v)
    if want != real["post"]:
        diffs.append("likelihood evaluations after the Hessian: code %r model %r" % (real["post"], want))
    return diffs, m


# --------------------------------------------------------------------------------------------------------------
# the independent oracle (the property statement on the real outputs; never uses the model)
# --------------------------------------------------------------------------------------------------------------

def _formula(theta, F, kept):
    """-(k/2) ln 3 + sum over kept (1/2 ln F + ln|theta|) with IEEE conventions for log 0"""
    k = len(kept)
    if k == 0:
        return 0.0
    tot = 0.0
    for i in kept:
        lt = math.log(abs(theta[i])) if theta[i] != 0 else float("-inf")
        tot += 0.5 * math.log(F[i]) + lt
    return -k / 2.0 * math.log(3.0) + tot


def oracle(case, real, Fused):
    """returns list of (key-suffix, what) property failures on this case"""
    bad = []
    n, mp = case["n"], case["max_param"]
    theta = case["theta"]
    if real["raised"]:
        return [("raised", "convert_params raised %s" % real["raised"])]
    cl, params, nll = real["codelen"], real["params"], real["nll"]
    good = Fused is not None and all(math.isfinite(v) and v > 0 for v in Fused)
    if not good:
        # non-positive or non-finite curvature: NaN, never a finite length
        if not (cl != cl):
            bad.append(("curvature", "curvature %r is not positive finite but codelen = %r (must be NaN)" % (Fused, cl)))
        return bad
    if case["kind"].startswith("linear") and not case.get("hinj"):
        # analytic Hessian exists and is positive: a NaN here means the numerical curvature was rejected
        Fa = _analytic_F(case)
        relerr = max(abs(a - b) / a for a, b in zip(Fa, Fused))
        if relerr > 1e-4:
            bad.append(("hessian-conformance", "curvature used %r differs from the analytic X^T X / sigma^2 %r (rel %.2e)" % (Fused, Fa, relerr)))
    if cl != cl:
        bad.append(("nan-on-good", "curvature %r is positive and finite but codelen is NaN" % (Fused,)))
        return bad
    N = [abs(theta[i]) * math.sqrt(Fused[i] / 12.0) for i in range(n)]
    amb = [i for i in range(n) if abs(N[i] - 1.0) <= BAND and not _exact(Fused[i])]
    S = [i for i in range(n) if N[i] < 1.0 and i not in amb]
    rep = params[:n]
    if len(params) != mp or any(p != 0.0 for p in params[n:]):
        bad.append(("pad", "reported params %r are not theta padded with zeros to max_param=%d" % (params, mp)))
    wrong = [i for i in range(n) if rep[i] != 0.0 and rep[i] != theta[i]]
    if wrong:
        bad.append(("params-value", "reported params %r are neither theta %r nor 0 at %r" % (rep, theta, wrong)))
    # a coordinate within BAND of the threshold is decided by rounding: accept the report if some resolution explains it
    best = None
    for m in range(1 << len(amb)):
        S_eff = sorted(S + [amb[j] for j in range(len(amb)) if m >> j & 1])
        v = _verdict(case, real, Fused, N, S_eff, bool(amb))
        if not v:
            return bad
        if best is None or len(v) < len(best):
            best = v
    return bad + best


def _verdict(case, real, Fused, N, S_eff, amb):
    bad = []
    n = case["n"]
    theta = case["theta"]
    cl, nll = real["codelen"], real["nll"]
    rep = real["params"][:n]
    tab = real["table"]

    def L(zero):
        v = list(theta)
        for i in zero:
            v[i] = 0.0
        return tab[tuple(v)]
    zeroed = [i for i in range(n) if rep[i] == 0.0 and theta[i] != 0.0]
    Z0 = [i for i in S_eff if theta[i] == 0.0]
    kept_options = None
    if S_eff and math.isfinite(L(S_eff)):
        # the documented case: every below-threshold parameter is zeroed and dropped
        if sorted(set(zeroed) | set(Z0)) != S_eff:
            bad.append(("snap-set", "N=%r: parameters %r are below threshold and the likelihood there is finite (%r), but the report zeroes %r"
                        % (N, S_eff, L(S_eff), zeroed)))
        kept_options = [[i for i in range(n) if i not in S_eff]]
    elif not S_eff:
        if zeroed:
            bad.append(("snap-set", "N=%r: no parameter is below threshold but the report zeroes %r" % (N, zeroed)))
        kept_options = [list(range(n))]
    else:
        # likelihood not finite at the snapped vector: only consistency is required; a parameter that is exactly zero
        # may count as kept or as dropped
        if any(i not in S_eff for i in zeroed):
            bad.append(("snap-set", "N=%r: report zeroes %r, not all below threshold %r" % (N, zeroed, S_eff)))
        kept_options = []
        for m in range(1 << len(Z0)):
            drop = set(zeroed) | set(Z0[j] for j in range(len(Z0)) if m >> j & 1)
            kept_options.append([i for i in range(n) if i not in drop])
    # reported nll is the likelihood at the reported parameters
    want_nll = L(zeroed)
    if not (_close(nll, want_nll, tol=1e-12)):
        bad.append(("nll", "reported nll %r but the likelihood at the reported parameters %r is %r" % (nll, rep, want_nll)))
    # the formula
    ok, msg = False, None
    for kept in kept_options:
        want = _formula(theta, Fused, kept)
        scale = sum(abs(math.log(abs(theta[i]))) + abs(0.5 * math.log(Fused[i])) for i in kept if theta[i] != 0) + 1.0
        if _close(cl, want, scale, tol=1e-9):
            ok = True
            break
        msg = msg or ("codelen %r but -(k/2)ln3 + sum_kept(ln F/2 + ln|theta|) = %r with kept=%r F=%r theta=%r" % (cl, want, kept, Fused, theta))
    if not ok:
        bad.append(("formula", msg))
    elif case["kind"].startswith("linear") and not case.get("hinj") and not amb:
        Fa = _analytic_F(case)
        Na = [abs(theta[i]) * math.sqrt(Fa[i] / 12.0) for i in range(n)]
        if all((Na[i] < 1) == (N[i] < 1) and abs(Na[i] - 1) > 1e-4 for i in range(n)):
            wa = _formula(theta, Fa, kept)
            if not _close(cl, wa, scale, tol=1e-4):
                bad.append(("formula-analytic", "codelen %r but the formula with the analytic Hessian gives %r" % (cl, wa)))
    return bad


def check_deriv(case, real, ctx_disagree):
    """deriv (flattened Hessian) vs the model's flattenUpper on the matrix the routine selected"""
    n, mp = case["n"], case["max_param"]
    st = _starts(n, mp)
    Fd = [real["deriv"][s] for s in st]
    H = None
    for kw, M in real["hcalls"]:
        if all(_same(M[i][i], Fd[i]) for i in range(n)):
            H = M
            break
    if H is None:
        return None, "returned deriv diagonal %r is not the diagonal of any Hessian numdifftools returned" % Fd
    op = "codelen_flat %d %d %s" % (mp, n, ",".join(common.f2b(H[i][j]) for i in range(n) for j in range(n)))
    return (op, real["deriv"]), None


# --------------------------------------------------------------------------------------------------------------
# line coverage of the anchored function
# --------------------------------------------------------------------------------------------------------------

class _Cov(object):
    def __init__(self, code):
        self.code, self.lines, self.tool = code, set(), None
        mon = getattr(sys, "monitoring", None)
        if mon is None:
            return
        for tid in (4, 3, 5):
            try:
                mon.use_tool_id(tid, "c07cov"); self.tool = tid; break
            except Exception:
                continue
        if self.tool is None:
            return
        def cb(code, line):
            self.lines.add(line)
            return mon.DISABLE
        mon.register_callback(self.tool, mon.events.LINE, cb)
        mon.set_local_events(self.tool, code, mon.events.LINE)

    def stop(self):
        mon = getattr(sys, "monitoring", None)
        if self.tool is not None:
            mon.set_local_events(self.tool, self.code, 0)
            mon.register_callback(self.tool, mon.events.LINE, None)
            mon.free_tool_id(self.tool)

    def report(self):
        allx = sorted(set(l for _, _, l in self.code.co_lines() if l is not None))
        body = [l for l in allx if l > self.code.co_firstlineno]
        return dict(executable=len(body), executed=len([l for l in body if l in self.lines]),
                    never_executed=[l for l in body if l not in self.lines])


# --------------------------------------------------------------------------------------------------------------

def _decision_key(case, real, m):
    n = case["n"]
    return (case["fcn"], tuple("z" if p == 0 else "k" for p in (real.get("params") or [])[:n]), (m or {}).get("branch"),
            json.dumps(case.get("pattern"), sort_keys=True), json.dumps(case.get("hinj"), sort_keys=True), case["max_param"])


def process(ctx, cases, record=True):
    """runs the real routine on every case, the model on the batch, compares, applies the oracle"""
    reals, ops, meta, flat_ops = [], [], [], []
    for c in cases:
        r = run_real(ctx, c)
        reals.append(r)
        if c["n"] == 0:
            meta.append("noparam")
            continue
        if not r["hcalls"]:
            meta.append(None)
            continue
        op, F0, Fused = model_op(c, r)
        ops.append(op)
        meta.append((len(ops) - 1, F0, Fused))
        if not r["raised"]:
            fo, err = check_deriv(c, r, None)
            if err:
                ctx.disagree("corr:deriv", "%s theta=%r: %s" % (c["fcn"], c["theta"], err))
            else:
                flat_ops.append((len(reals) - 1, fo))
    out = common.model(ops + [fo[0] for _, fo in flat_ops]) if ops or flat_ops else []
    nbad = 0
    branches = {}
    for c, r, mt in zip(cases, reals, meta):
        if mt == "noparam":
            # lines 87-89: no parameter, k = 0: code length 0, nothing else touched (outside the model: no Hessian)
            if r["raised"] or r["codelen"] != 0 or any(p != 0 for p in r["params"]) or not _same(r["nll"], r["nll_in"]) or r["hcalls"] or r["post"]:
                ctx.fail("convert_params:noparam", "function %s has no parameter but convert_params gave %r" % (c["fcn"], {k_: r.get(k_) for k_ in ("params", "nll", "codelen", "raised")}),
                         dict(case=c))
            branches["noparam(lines 87-89)"] = branches.get("noparam(lines 87-89)", 0) + 1
            if record:
                ctx.case(("noparam", c["fcn"], c["max_param"]), nontrivial=False)
            continue
        if mt is None:
            ctx.disagree("corr:no-hessian", "%s: convert_params made no Hessian evaluation (%s)" % (c["fcn"], r["raised"]))
            for suffix, what in oracle(c, r, None):
                ctx.fail("convert_params:%s:%s" % (c["kind"], suffix), "%s [fcn %s theta %r]" % (what, c["fcn"], c["theta"]), dict(case=c))
            continue
        k, F0, Fused = mt
        diffs, m = compare(c, r, out[k], F0)
        if diffs:
            nbad += 1
            ctx.disagree("corr:convert_params", dict(fcn=c["fcn"], theta=c["theta"], kind=c["kind"], op=ops[k], model=out[k], diffs=diffs[:4]))
        br = (m or {}).get("branch", "error")
        branches[br] = branches.get(br, 0) + 1
        if len(r["hcalls"]) > 1:
            fk = "fallback:" + ("nan" if Fused is None else "reselected")
            branches[fk] = branches.get(fk, 0) + 1
        fails = oracle(c, r, Fused)
        for suffix, what in fails:
            ctx.fail("convert_params:%s:%s" % (c["kind"].split(":")[0], suffix), "%s [fcn %s theta %r max_param %d]" % (what, c["fcn"], c["theta"], c["max_param"]),
                     dict(case=c))
        if record:
            nontriv = br not in ("noSnap",)
            ctx.case(_decision_key(c, r, m), nontrivial=nontriv)
            ctx.sample(dict(fcn=c["fcn"], theta=c["theta"], max_param=c["max_param"], kind=c["kind"], F_used=Fused, branch=br,
                            code=dict(params=r.get("params"), nll=r.get("nll"), codelen=r.get("codelen")), model=out[k][:160]), cap=8)
    nflat_bad = 0
    for j, (ri, (fop_, want)) in enumerate(flat_ops):
        got = out[len(ops) + j]
        g = [common.b2f(t) for t in got.split(",")] if got not in ("error", "-", "bad-op") else None
        if g is None or len(g) != len(want) or not all(_same(a, b) for a, b in zip(g, want)):
            nflat_bad += 1
            ctx.disagree("corr:deriv", "%s: code deriv %r model %s" % (cases[ri]["fcn"], want, got[:200]))
    return dict(n=len(cases), mismatches=nbad, deriv_ops=len(flat_ops), deriv_mismatch=nflat_bad, branches=branches)



# --------------------------------------------------------------------------------------------------------------
# C07c: row and call independence of the Fisher stage (the REAL test_all_Fisher.main over synthetic libraries)
# --------------------------------------------------------------------------------------------------------------

def _r7(v):
    """a value as np.savetxt(fmt='%.7e') writes and np.loadtxt reads it back"""
    v = float(v)
    return v if v != v or math.isinf(v) else float("%.7e" % v)


def _row_eq(a, b):
    return len(a) == len(b) and all(_same(float(x), float(y)) for x, y in zip(a, b))


def _gen_flags():
    try:
        src = open(os.path.join(common.LEAN, "ESRVerif", "Generated", "FisherAlias.lean")).read()
    except Exception:
        return {}
    out = {}
    for name in ("retryReadsSlot", "slotReadByOtherRows", "slotReadAfterLoop"):
        for ln in src.splitlines():
            if ln.startswith("def %s : Bool :=" % name):
                out[name] = ln.split(":=")[1].strip() == "true"
    return out


def _scripted_call(ctx, case, arr, ne=None):
    """the real convert_params on the array OBJECT `arr` (no copy), the case's scripts active; ne: None | 'first' | 'after-snap'
    -> ('ok', params, nll, deriv, codelen) | ('NameError',) | ('raised', text)"""
    import io, contextlib
    env = _env(ctx)
    np, taf, rec = env["np"], env["taf"], env["rec"]
    lik = _likelihood(ctx, env, case["data"])
    fcn, eq, integ = lik.run_sympify(case["fcn"])
    n = case["n"]
    rec.hcalls, rec.post, rec.in_h, rec.on = [], [], False, False
    rec.pattern, rec.hinj = case.get("pattern"), case.get("hinj")
    st = dict(evals=0, post=0)
    base = type(lik).negloglike

    def nl(a, eq_numpy, **kw):
        if ne == "first" and st["evals"] == 0:
            st["evals"] += 1
            raise NameError("scripted")
        if ne == "after-snap" and not rec.in_h and rec.hcalls and st["post"] == 0:
            st["post"] += 1
            raise NameError("scripted")
        st["evals"] += 1
        return base(lik, a, eq_numpy, **kw)
    lik.negloglike = nl
    try:
        with contextlib.redirect_stdout(io.StringIO()), np.errstate(all="ignore"):
            params, nll, deriv, codelen = taf.convert_params(fcn, eq, integ, arr, lik, case["nll_in"], max_param=case["max_param"])
        return ("ok", [float(v) for v in params], float(nll), [float(v) for v in deriv], float(codelen))
    except NameError:
        return ("NameError",)
    except BaseException as e:
        return ("raised", "%s: %s" % (type(e).__name__, e))
    finally:
        del lik.negloglike
        rec.pattern, rec.hinj = None, None


def _nll_in(ctx, case):
    import sympy
    from esr.fitting.sympy_symbols import x as sx
    env = _env(ctx)
    np = env["np"]
    lik = _likelihood(ctx, env, case["data"])
    n = case["n"]
    fcn, eq, integ = lik.run_sympify(case["fcn"])
    if n == 0:
        f = sympy.lambdify([sx], eq, modules=["numpy"])
        return float(lik.negloglike([], f))
    syms = list(sympy.symbols(" ".join("a%d" % i for i in range(n)), real=True)) if n > 1 else [sympy.symbols("a0", real=True)]
    f = sympy.lambdify([sx] + syms, eq, modules=["numpy"])
    with np.errstate(all="ignore"):
        return float(lik.negloglike(np.array(case["theta"], dtype=float), f))


def expected_row(ctx, case, tryInt, retry_reads):
    """what the output rows of function `case` must be, from calls of the real routine outside main (fresh copies; for the retry after a
    NameError raised behind the snap: the two calls on one array object, as main makes them).  -> (codelen row, derivs row, info)"""
    np = _env(ctx)["np"]
    mp = case["max_param"]
    dw = mp * (mp + 1) // 2
    v = float(case["nll1"])
    if v != v or math.isinf(v):
        return [float("nan"), v] + [0.0] * mp, [0.0] * dw, dict(kind="bad-nll")
    flat = ([0.0, _r7(v)] + [0.0] * mp, [0.0] * dw)
    th = np.zeros(mp)
    th[:case["n"]] = case["theta"]
    ne = case.get("ne")
    if ne and not tryInt:
        return flat[0], flat[1], dict(kind="nameerror-no-retry")
    if case["n"] == 0:
        r = _scripted_call(ctx, case, th.copy(), None)
        return [_r7(r[4]), _r7(r[2])] + [_r7(t) for t in r[1]], [_r7(t) for t in r[3]], dict(kind="fresh")
    fresh = _scripted_call(ctx, case, th.copy(), None)
    info = dict(kind="fresh", fresh=fresh)
    use = fresh
    if ne == "after-snap":
        arr = th.copy()
        first = _scripted_call(ctx, case, arr, "after-snap")
        info["first"] = first[0]
        info["slot_after_first"] = [float(t) for t in arr]
        second = _scripted_call(ctx, case, arr, None)
        info["same_object_retry"] = second
        info["kind"] = "retry-after-snap"
        if first[0] == "NameError" and retry_reads:
            use = second
    elif ne == "first":
        info["kind"] = "retry-fresh"
    if use[0] != "ok":
        info["kind"] += "+raised"
        return flat[0], flat[1], info
    return [_r7(use[4]), _r7(use[2])] + [_r7(t) for t in use[1]], [_r7(t) for t in use[3]], info


def gen_family(ctx, deep):
    rng = ctx.rng
    libs = []
    for li in range(8 if deep else 3):
        data = _dataset(rng)
        data["y"] = [rng.gauss(0, 1) * s for s in data["s"]]
        ds = [data]
        funcs = []
        _gl = globals()["gen_linear"]

        def gen_linear(rng, ds, inject=None):
            # one data set for the whole library: keep the residuals (hence the rounding error of the numerical Hessian) small
            for _ in range(200):
                c = _gl(rng, ds, inject)
                if max(c["scales"]) <= 3.0:
                    break
            return c

        def add(c, **kw):
            c = dict(c)
            c["max_param"] = 4
            c["data"] = data
            c.update(kw)
            funcs.append(c)
        for _ in range(4 if not deep else 6):
            add(gen_linear(rng, ds))
        add(gen_linear(rng, ds, inject="pattern"))
        add(gen_linear(rng, ds, inject="exact"))
        h = gen_linear(rng, ds, inject="hessian")
        h["hinj"] = dict(which="first", idx=rng.randrange(h["n"]), value=rng.choice(["zero", "neg", "nan", "inf"]), mod=0)
        add(h)                                                # first Hessian unusable, the fallback re-selects
        add(gen_pole(rng, ds))
        add(gen_noparam(rng, ds))
        add(gen_linear(rng, ds), nll1=rng.choice(["nan", "inf"]))
        if li % 3 != 2 or deep:
            add(gen_linear(rng, ds), ne="first")
            for _ in range(20):
                c = gen_linear(rng, ds)
                if c["n"] >= 2 and any(sc < 0.95 for sc in c["scales"]) and any(sc > 1.05 for sc in c["scales"]):
                    break
            if any(sc < 0.95 for sc in c["scales"]):
                add(c, ne="after-snap")
            add(gen_pole(rng, ds), ne="after-snap")
        rng.shuffle(funcs)
        for i, c in enumerate(funcs):
            c["fid"] = i
            c["nll_in"] = _nll_in(ctx, c)
            c.setdefault("nll1", c["nll_in"])
            if c.get("ne") == "after-snap":
                # the script raises at the first likelihood evaluation BEHIND the Hessian: only where the routine gets that far
                th = _env(ctx)["np"].zeros(4)
                th[:c["n"]] = c["theta"]
                if _scripted_call(ctx, c, th, "after-snap")[0] != "NameError":
                    del c["ne"]
        libs.append(dict(name="L%d" % li, data=data, funcs=funcs, tryInt=(li % 3 != 1)))
    return libs


def fam_schedules(rng, n):
    base = list(range(n))
    sh = list(base)
    rng.shuffle(sh)
    j = rng.randrange(n)
    return [("base", base, 1), ("reversed", base[::-1], 1), ("shuffled", sh, 1), ("removed%d" % j, [i for i in base if i != j], 1),
            ("ranks2", base, 2), ("ranks3", sh, 3)]


FAM_KEYS = ("fcn", "n", "theta", "max_param", "pattern", "hinj", "nll1", "ne", "kind", "bases", "scales", "nll_in", "fid")


def run_family_jobs(ctx, jobs, tag):
    """jobs: dict(lib (dict), label, order, P) -> adds 'cl', 'dv' (float rows as listed) or 'error'"""
    import mpirun
    from concurrent.futures import ThreadPoolExecutor
    byP = {}
    for k, j in enumerate(jobs):
        j["comp"] = k + 1
        byP.setdefault(j["P"], []).append(j)

    def work(P):
        d = os.path.join(ctx.tmp, "c07fam_%s_P%d" % (tag, P))
        os.makedirs(d, exist_ok=True)
        spec = dict(harness=common.HARNESS, tmp=d, jobs=[
            dict(comp=j["comp"], dir=os.path.join(d, "job%d" % j["comp"]), data=j["lib"]["data"], tryInt=j["lib"]["tryInt"],
                 listing=[{k_: j["lib"]["funcs"][f][k_] for k_ in FAM_KEYS if k_ in j["lib"]["funcs"][f]} for f in j["order"]]) for j in byP[P]])
        for sj in spec["jobs"]:
            os.makedirs(sj["dir"], exist_ok=True)
        jf, of = os.path.join(d, "jobs.json"), os.path.join(d, "out.json")
        json.dump(spec, open(jf, "w"))
        r = mpirun.run(P, [os.path.join(common.HARNESS, "workers", "fisher_family.py"), jf, of], env_extra=ctx.env(), cwd=d, timeout=900, stdout_dir=d)
        if not r["ok"] or not os.path.exists(of):
            tail = ""
            try:
                tail = "\n".join(open(pth).read()[-600:] for pth in r["stdout"])
            except Exception:
                pass
            for j in byP[P]:
                j["error"] = "real test_all_Fisher.main did not complete on %d rank(s): %s %s ... %s" % (P, r.get("error"), r.get("exit_codes"), tail[-900:])
            return
        for j, res in zip(byP[P], json.load(open(of))):
            j["cl"] = [[float(t) for t in ln.split()] for ln in res[0]]
            j["dv"] = [[float(t) for t in ln.split()] for ln in res[1]]
    with ThreadPoolExecutor(max_workers=3) as ex:
        list(ex.map(work, sorted(byP)))
    return jobs


def _slimlib(lib):
    return dict(name=lib["name"], data=lib["data"], tryInt=lib["tryInt"], funcs=[{k_: c[k_] for k_ in FAM_KEYS if k_ in c} for c in lib["funcs"]])


def _in_quantifier(c):
    """a linear-in-parameter Gaussian model with nothing scripted into the likelihood or the Hessian"""
    return c["kind"] == "linear" and not c.get("pattern") and not c.get("hinj")


def family_check(ctx, deep):
    import stages_corr
    t0 = time.time()
    flags = _gen_flags()
    rr = flags.get("retryReadsSlot", True)
    libs = gen_family(ctx, deep)
    for lib in libs:
        for c in lib["funcs"]:
            c["data"] = lib["data"]
    jobs = []
    for lib in libs:
        for label, order, P in fam_schedules(ctx.rng, len(lib["funcs"])):
            jobs.append(dict(lib=lib, label=label, order=order, P=P))
    run_family_jobs(ctx, jobs, "run")
    stats = dict(libraries={l["name"]: len(l["funcs"]) for l in libs}, schedules=sorted(set(j["label"].rstrip("0123456789") for j in jobs)), rows_run=0,
                 rows_compared_with_base=0, rows_differing=0, rows_compared_with_calls=0, retry_rows=0, retry_rows_where_slot_matters=0,
                 model_files=0, model_file_mismatch=0, retryReadsSlot=rr)
    ops, opjobs = [], []
    for lib in libs:
        slim = _slimlib(lib)
        exp = {}
        for c in lib["funcs"]:
            exp[c["fid"]] = expected_row(ctx, c, lib["tryInt"], rr)
        lj = [j for j in jobs if j["lib"] is lib]
        base = lj[0]
        for j in lj:
            if "error" in j:
                ctx.fail("test_all_Fisher.main:family-run:%s" % j["label"].rstrip("0123456789"), "library %s schedule %s (P=%d): %s" % (lib["name"], j["label"], j["P"], j["error"]),
                         dict(kind="family", lib=slim, fid=None, a=dict(label=j["label"], order=j["order"], P=j["P"]), b=None))
                continue
            if len(j["cl"]) != len(j["order"]) or len(j["dv"]) != len(j["order"]):
                ctx.fail("test_all_Fisher.main:row-count", "library %s schedule %s (P=%d): %d/%d rows for %d functions" % (lib["name"], j["label"], j["P"], len(j["cl"]), len(j["dv"]), len(j["order"])),
                         dict(kind="family", lib=slim, fid=None, a=dict(label=j["label"], order=j["order"], P=j["P"]), b=None))
                j["error"] = "row count"
                continue
            j["rows"] = {fid: (j["cl"][i], j["dv"][i]) for i, fid in enumerate(j["order"])}
            stats["rows_run"] += len(j["order"])
        if "error" in base:
            continue
        for j in lj:
            if "error" in j:
                continue
            for pos, fid in enumerate(j["order"]):
                c = lib["funcs"][fid]
                got = j["rows"][fid]
                ecl, edv, info = exp[fid]
                kindkey = c["kind"].split(":")[0] + ("+ne-" + c["ne"] if c.get("ne") else "")
                if j is not base:
                    stats["rows_compared_with_base"] += 1
                    b = base["rows"][fid]
                    if not (_row_eq(got[0], b[0]) and _row_eq(got[1], b[1])):
                        stats["rows_differing"] += 1
                        ctx.fail("test_all_Fisher.main:row-independence:%s" % kindkey,
                                 "function %r (theta=%r, stage-1 nll %r) gets the row %r / derivs %r in schedule %s (P=%d, listed at position %d) but %r / %r in schedule base "
                                 "(P=1, position %d) of the same library %s; the routine called on a fresh copy gives %r"
                                 % (c["fcn"], c["theta"], c["nll1"], got[0], got[1][:4], j["label"], j["P"], pos, b[0], b[1][:4], fid, lib["name"], ecl),
                                 dict(kind="family", lib=slim, fid=fid, a=dict(label=j["label"], order=j["order"], P=j["P"]), b=dict(label="base", order=base["order"], P=1)))
                        continue
                # the row is what the routine returns for this function and this stage-1 row (oracle-checked separately, see process)
                stats["rows_compared_with_calls"] += 1
                if c.get("ne") and lib["tryInt"]:
                    stats["retry_rows"] += 1
                    if info.get("same_object_retry") and info.get("fresh") and info["same_object_retry"] != info["fresh"]:
                        stats["retry_rows_where_slot_matters"] += 1
                if not (_row_eq(got[0], ecl) and _row_eq(got[1], edv)):
                    what = ("function %r (theta=%r, stage-1 nll %r, %s) gets the row %r / derivs %r from test_all_Fisher.main (schedule %s, P=%d, position %d) but the routine called "
                            "outside main (%s) gives %r / %r" % (c["fcn"], c["theta"], c["nll1"], c["kind"], got[0], got[1][:4], j["label"], j["P"], pos, info["kind"], ecl, edv[:4]))
                    rp = dict(kind="family-call", lib=slim, fid=fid, a=dict(label=j["label"], order=j["order"], P=j["P"]))
                    if info["kind"].startswith("retry-after-snap") and not _in_quantifier(c):
                        # outside the property's quantifier (a likelihood that raises NameError on some parameter vectors only): the regenerated
                        # flag retryReadsSlot must describe what main does
                        ctx.disagree("corr:retry-reads-slot", what)
                    else:
                        ctx.fail("test_all_Fisher.main:row-vs-call:%s" % kindkey, what, rp)
        # the loop model: Model/Stages.fisherFile on the outcomes the routine has outside main
        def otok(fid, which):
            c = lib["funcs"][fid]
            if which == 0 and c.get("ne"):
                return "ne"
            ecl, edv, info = exp[fid]
            return ["ok", ecl[2:], ecl[1], edv, ecl[0]]
        for j in lj:
            if "error" in j:
                continue
            jb = dict(kind="fis", mp=4, tryInt=lib["tryInt"], comp=j["comp"],
                      table=[[_r7(lib["funcs"][f]["nll1"])] + list(lib["funcs"][f]["theta"]) + [0.0] * (4 - lib["funcs"][f]["n"]) for f in j["order"]],
                      funcs=[[otok(f, 0), otok(f, 1)] for f in j["order"]])
            ops.append(stages_corr.model_line(jb, j["P"]))
            opjobs.append((jb, j))
    if ops:
        out = common.model(ops)
        for (jb, j), ln in zip(opjobs, out):
            stats["model_files"] += 1
            real = ([" ".join(repr(v) for v in r) for r in j["cl"]], [" ".join(repr(v) for v in r) for r in j["dv"]], [])
            d = stages_corr.compare(jb, j["P"], ln, real)
            if d:
                stats["model_file_mismatch"] += 1
                ctx.disagree("corr:fisherFile", "library %s schedule %s (P=%d): %s" % (j["lib"]["name"], j["label"], j["P"], d))
    stats["wall_s"] = round(time.time() - t0, 1)
    return libs, stats


def alias_check(ctx, cases):
    """the real convert_params on array OBJECTS as main passes them: a row view of a table (what is written, and where), and a second
    call on the same object"""
    np = _env(ctx)["np"]
    st = dict(cases=0, slot_written=0, second_call_compared=0)
    for c in cases:
        n, mp = c["n"], c["max_param"]
        if n == 0:
            continue
        c = dict(c)
        c["nll_in"] = _nll_in(ctx, c)
        st["cases"] += 1
        table = np.full((3, mp), 7.25)
        table[:, :n] = np.array(c["theta"], dtype=float)
        before = table.copy()
        view = table[1, :]
        first = _scripted_call(ctx, c, view, None)
        fresh = _scripted_call(ctx, c, before[1].copy(), None)
        changed = [(int(i), int(k)) for i, k in zip(*np.nonzero(~((table == before) | ((table != table) & (before != before)))))]
        outside = [ik for ik in changed if ik[0] != 1 or ik[1] >= n]
        notzero = [ik for ik in changed if ik[0] == 1 and ik[1] < n and table[ik] != 0.0]
        if changed:
            st["slot_written"] += 1
        key = c["kind"].split(":")[0]
        if outside or notzero:
            ctx.fail("convert_params:writes-outside-own-slot:%s" % key,
                     "convert_params(%r) handed row 1 of a 3-row table (theta=%r, width %d) changed the entries %r (outside row 1[:nparam]: %r; not a snap to zero: %r)"
                     % (c["fcn"], c["theta"], mp, changed, outside, notzero), dict(kind="alias", case=c))
        if first != fresh and not (first[0] == fresh[0] == "ok" and all(_row_eq(a if isinstance(a, list) else [a], b if isinstance(b, list) else [b]) for a, b in zip(first[1:], fresh[1:]))):
            ctx.fail("convert_params:view-vs-copy:%s" % key, "convert_params(%r, theta=%r) returns %r when handed a row view of a table but %r when handed a copy"
                     % (c["fcn"], c["theta"], first, fresh), dict(kind="alias", case=c))
        # second call on the SAME object: for a linear-Gaussian model whose snapped likelihood is finite it must report what the first call reported
        if _in_quantifier(c) and first[0] == "ok" and first[4] == first[4] and math.isfinite(first[2]):
            F = _analytic_F(c)
            N = [abs(c["theta"][i]) * math.sqrt(F[i] / 12.0) for i in range(n)]
            if all(abs(v - 1.0) > 1e-4 for v in N):
                second = _scripted_call(ctx, c, view, None)
                st["second_call_compared"] += 1
                ok = second[0] == "ok" and second[1] == first[1] and _close(second[2], first[2], tol=1e-9) and _close(second[4], first[4], 10.0, tol=1e-6)
                if not ok:
                    ctx.fail("convert_params:same-object-second-call:%s" % key,
                             "convert_params(%r, theta=%r) called twice on one array object: first %r, second %r (a linear model: same curvature, the snapped coordinates stay snapped)"
                             % (c["fcn"], c["theta"], first, second), dict(kind="alias", case=c))
    return st


def run(ctx):
    drift = extract.drifted(ctx.proof.get("extract", {}), MODELLED)
    deep = (not ctx.quick) or bool(drift)
    ctx.extra["source_drift"] = drift
    rng = ctx.rng
    env = _env(ctx)
    cov = _Cov(env["taf"].convert_params.__code__)
    total = 20000 if deep else 600
    datasets = [_dataset(rng) for _ in range(40 if deep else 12)]
    mix = dict(linear=0.56, pattern=0.16, pole=0.10, hessian=0.09, degenerate=0.03, exact=0.06)
    cases = []
    for _ in range(total):
        u = rng.random()
        if u < mix["linear"]:
            cases.append(gen_linear(rng, datasets))
        elif u < mix["linear"] + mix["pattern"]:
            cases.append(gen_linear(rng, datasets, inject="pattern"))
        elif u < mix["linear"] + mix["pattern"] + mix["pole"]:
            cases.append(gen_pole(rng, datasets))
        elif u < mix["linear"] + mix["pattern"] + mix["pole"] + mix["exact"]:
            cases.append(gen_linear(rng, datasets, inject="exact"))
        elif u < 1 - mix["degenerate"]:
            cases.append(gen_linear(rng, datasets, inject="hessian"))
        else:
            cases.append(gen_degenerate(rng, datasets))
    # hand-picked first: upstream's example shape, all-snapped (k=0), exact zero parameter, a single snappable pole
    d0 = datasets[0]
    t0 = time.time()
    agg = dict(n=0, mismatches=0, deriv_ops=0, deriv_mismatch=0, branches={})
    kinds = {}
    for i in range(0, len(cases), 500):
        chunk = cases[i:i + 500]
        res = process(ctx, chunk)
        for k_ in ("n", "mismatches", "deriv_ops", "deriv_mismatch"):
            agg[k_] += res[k_]
        for b, v in res["branches"].items():
            agg["branches"][b] = agg["branches"].get(b, 0) + v
        for c in chunk:
            kinds[c["kind"]] = kinds.get(c["kind"], 0) + 1
    cov.stop()
    t1 = time.time()
    ctx.extra["alias_calls"] = alias_check(ctx, [c for c in cases if c["n"] > 0][:: max(1, len(cases) // (400 if deep else 60))])
    libs, fstats = family_check(ctx, deep)
    for lib in libs:
        # every library function through the oracle and the convert_params model as well (fresh-copy call)
        process(ctx, [c for c in lib["funcs"]], record=False)
    ctx.extra["row_independence"] = fstats
    ctx.extra["family_wall_s"] = round(time.time() - t1, 1)
    dis = set(d["name"] for d in ctx.disagreements)
    ctx.extra["corr_obligations"] = 4
    ctx.extra["corr_discharged"] = int(agg["mismatches"] == 0) + int(agg["deriv_mismatch"] == 0) + int("corr:fisherFile" not in dis) + int("corr:retry-reads-slot" not in dis)
    ctx.extra["correspondence"] = agg
    ctx.extra["input_distribution"] = dict(kinds=kinds, nparam={str(n): sum(1 for c in cases if c["n"] == n) for n in (1, 2, 3, 4)},
                                           max_param={str(n): sum(1 for c in cases if c["max_param"] == n) for n in (1, 2, 3, 4)},
                                           threshold_scales=SCALES, datasets=len(datasets))
    ctx.extra["model_branches_hit"] = agg["branches"]
    ctx.extra["model_branches_never_hit"] = [b for b in ("fallbackNan", "badCurvature", "noSnap", "snapAll", "kZero", "searchSingle", "searchFound", "searchNone")
                                             if b not in agg["branches"]]
    ctx.extra["branch_note"] = ("badCurvature (lines 180-182) cannot be reached through convert_params: the tests of line 180 are a subset of those of "
                                "line 121 and the fallback only re-selects positive finite diagonals (theorem bad_implies_fallback); it is covered by the proof only")
    ctx.extra["anchored_line_coverage"] = cov.report()
    ctx.extra["case_wall_s"] = round(time.time() - t0, 2)
    ctx.extra["ambiguity_band"] = BAND


def _replay_family(ctx, rp):
    lib = rp["lib"]
    for c in lib["funcs"]:
        c["data"] = lib["data"]
    jobs = [dict(lib=lib, label=sch["label"], order=sch["order"], P=sch["P"]) for sch in (rp["a"], rp.get("b")) if sch]
    run_family_jobs(ctx, jobs, "replay")
    ok = True
    rows = []
    for j in jobs:
        if "error" in j:
            print("schedule %s (P=%d): %s" % (j["label"], j["P"], j["error"][-600:]))
            return False
        print("schedule %s (P=%d, order %r): %d rows" % (j["label"], j["P"], j["order"], len(j["cl"])))
        if len(j["cl"]) != len(j["order"]):
            return False
        if rp.get("fid") is not None:
            i = j["order"].index(rp["fid"])
            rows.append((j["cl"][i], j["dv"][i]))
            print("  function %d %r at position %d: %r" % (rp["fid"], lib["funcs"][rp["fid"]]["fcn"], i, j["cl"][i]))
    if rp["kind"] == "family" and len(rows) == 2:
        ok = _row_eq(rows[0][0], rows[1][0]) and _row_eq(rows[0][1], rows[1][1])
        print("rows of the function in the two schedules %s" % ("agree" if ok else "DIFFER"))
    if rp["kind"] == "family-call" and rows:
        c = lib["funcs"][rp["fid"]]
        ecl, edv, info = expected_row(ctx, c, lib["tryInt"], _gen_flags().get("retryReadsSlot", True))
        ok = _row_eq(rows[0][0], ecl) and _row_eq(rows[0][1], edv)
        print("the routine outside main (%s): %r -> %s" % (info["kind"], ecl, "agree" if ok else "DIFFER"))
    return ok


def replay(ctx, data):
    rp = data["replay"]
    if rp.get("kind") in ("family", "family-call"):
        return _replay_family(ctx, rp)
    if rp.get("kind") == "alias":
        n0 = len(ctx.failures) if hasattr(ctx, "failures") else 0
        bad = []
        orig = ctx.fail
        ctx.fail = lambda k, w, r=None: (bad.append(k), print("FAIL[%s]: %s" % (k, w)))
        try:
            alias_check(ctx, [rp["case"]])
        finally:
            ctx.fail = orig
        return not bad
    c = data["replay"]["case"]
    r = run_real(ctx, c)
    if c["n"] == 0:
        fails = [] if (not r["raised"] and r["codelen"] == 0 and not any(r["params"]) and _same(r["nll"], r["nll_in"])) else [("noparam", "k=0 but %r" % r.get("codelen"))]
    elif not r["hcalls"]:
        fails = oracle(c, r, None)
    else:
        _, F0, Fused = model_op(c, r)
        fails = oracle(c, r, Fused)
    print("case:", json.dumps({k: v for k, v in c.items() if k != "data"}))
    print("real:", {k: r.get(k) for k in ("params", "nll", "codelen", "raised", "nll_in")}, "hessian evaluations:", len(r["hcalls"]))
    for s, w in fails:
        print("FAIL[%s]: %s" % (s, w))
    return not fails
