"""C09 — likelihood classes compute the documented negative log-likelihood, never NaN."""
import cmath, math, os, sys, warnings
import common, extract

LEAN_MODULE = "ESRVerif.Props.C09"
LEVEL = "proof"
LEVEL_TEXT = ("Lean theorems over Val R (reals, +-inf, NaN, a complex marker) about the negloglike/get_pred bodies of the five likelihood classes, which a "
              "translator re-reads from likelihood.py into a deep-embedded expression language on every run: on finite real predictions each class returns "
              "exactly its documented formula (Gauss, Poisson, CC/Mock, MSE; vector and scalar predictions); no class ever returns NaN for any data and any "
              "prediction or raising model; complex, NaN and (Poisson) non-positive predictions give +inf. The same regenerated terms are run over "
              "float64/complex128 by the executable model and compared with the real classes on generated vectors (NaN, inf, complex, negative, scalar, raising).")
TECHNIQUE = "Lean 4 theorems about the deep-embedded negloglike bodies regenerated from likelihood.py; float64/complex128 interpreter of the same terms tied to the real classes by generated-input correspondence; independent formula oracle on the real classes"
RULE = ("cases = (class, data vectors y/sigma/inv_cov, what eq_numpy(x,*a) does) drawn from VERIF_SEED in four streams: "
        "formula (finite, in-domain), bad (NaN / non-zero imaginary part / Poisson non-positive injected), wild (±inf, "
        "negatives, huge, scalars, length-1 and mismatching vectors, raising callables, complex dtype with zero imaginary "
        "part, garbage data) and real (instances built by the real constructors on the shipped data files, callables "
        "that really use x and a); non-trivial = at least two data points and a vector or scalar prediction; distinct by "
        "(class, bit patterns of all inputs)")
EXPLANATION = ("The five negloglike bodies, the get_pred they resolve to and the inv_cov initialiser are re-translated "
               "from the staged likelihood.py into Lean terms on every run; the theorems (documented formula on finite "
               "in-domain inputs, never NaN on any input, +inf on NaN/complex/Poisson-non-positive predictions) are "
               "about those regenerated terms. The same terms, interpreted over float64/complex128, are compared with "
               "the real classes; the property statement itself is checked on the real classes by an independent "
               "pure-Python oracle (math.fsum of the documented summands).")
TRUSTED = ["harness/extractors/nll.py (python ast -> ESR.NLL.Cls); mitigated by running the float interpreter of the very same terms against the real classes",
           "numpy/IEEE arithmetic is modelled as exact reals + IEEE special values (no rounding, overflow, signed zero); "
           "np.sum order and libm log/sqrt differ from the model's by rounding only (compared to 1e-9)",
           "eq_numpy(x,*a) is a black box: the theorems quantify over its outcome (raised / scalar / vector), not over sympy lambdas",
           "Val.cplx is a marker for 'non-zero imaginary part' (what np.isreal tests); complex dtype with zero imaginary part is outside the property statement (covered by correspondence only)"]
ASSUMPTIONS = ["data vectors and the prediction have one common length (or the prediction is a scalar) in the theorems; other shapes are covered by correspondence only",
               "formula theorems assume sigma > 0 (ln sigma), finite data, finite predictions (positive for Poisson, non-negative for CC/Mock)",
               "an imaginary part that underflows to 0 inside np.sqrt (e.g. sqrt(1e300+1e-300j)) counts as rounding, not modelled"]
# tables whose committed version may stand in as a hand-written model when the translator cannot read the source;
# value = the correspondence that then ties it to the code (common.prove / common.decide)
FALLBACK = {'NLL': 'the Lean interpreter of the committed likelihood programs vs the real negloglike/get_pred of every class on PRNG data incl. NaN/inf/complex/exception cases'}
MODELLED = ["likelihood.py:Likelihood.get_pred", "likelihood.py:CCLikelihood.get_pred", "likelihood.py:MockLikelihood.get_pred",
            "likelihood.py:CCLikelihood.negloglike", "likelihood.py:MockLikelihood.negloglike", "likelihood.py:MSE.negloglike",
            "likelihood.py:GaussLikelihood.negloglike", "likelihood.py:PoissonLikelihood.negloglike"]

CLASSES = ["CCLikelihood", "MockLikelihood", "MSE", "GaussLikelihood", "PoissonLikelihood"]
SQRT_CLASSES = ("CCLikelihood", "MockLikelihood")
ANCHOR_FUNCS = [("Likelihood", "get_pred"), ("CCLikelihood", "get_pred"), ("CCLikelihood", "negloglike"),
                ("MockLikelihood", "get_pred"), ("MockLikelihood", "negloglike"), ("MSE", "negloglike"),
                ("GaussLikelihood", "negloglike"), ("PoissonLikelihood", "negloglike")]
NAN, INF = float("nan"), float("inf")


class Boom(Exception):
    pass


# --------------------------------------------------------------------------------------
# number <-> text
# --------------------------------------------------------------------------------------

def _num_repr(v):
    """JSON-safe, human-readable: float -> repr string, complex -> [re, im] strings."""
    if isinstance(v, complex):
        return [repr(v.real), repr(v.imag)]
    return repr(float(v))


def _num_parse(r):
    if isinstance(r, list):
        return complex(float(r[0]), float(r[1]))
    return float(r)


def _is_c(v):
    return isinstance(v, complex)


def _tokens(v):
    if _is_c(v):
        return [common.f2b(v.real), common.f2b(v.imag)]
    return [common.f2b(v)]


def _klass(x):
    if x != x:
        return "nan"
    if x == INF:
        return "+inf"
    if x == -INF:
        return "-inf"
    return "fin"


# --------------------------------------------------------------------------------------
# a case: class name, data, and what eq_numpy does
#   pred = ("R",) | ("S", value) | ("V", [values])      values are python float or complex (complex => complex dtype)
# --------------------------------------------------------------------------------------

def make_callable(pred):
    import numpy as np
    if pred[0] == "R":
        def f(x, *a):
            raise Boom("model function raised")
        return f
    if pred[0] == "S":
        v = pred[1]
        val = np.complex128(v) if _is_c(v) else (v if pred[2:] == ("py",) else np.float64(v))
        return lambda x, *a: val
    vals = pred[1]
    arr = np.array(vals, dtype=complex if any(_is_c(v) for v in vals) else float)
    return lambda x, *a: arr.copy()


def pred_of_value(v):
    """Classify what a real callable returned (None if it is outside the modelled shapes)."""
    import numpy as np
    if isinstance(v, (bool, np.bool_)):
        return None
    if isinstance(v, (int, float)):
        return ("S", float(v))
    if isinstance(v, complex):
        return ("S", v)
    if isinstance(v, np.generic) or (isinstance(v, np.ndarray) and v.ndim == 0):
        if np.iscomplexobj(v):
            return ("S", complex(v))
        if v.dtype.kind in "fiu":
            return ("S", float(v))
        return None
    if isinstance(v, np.ndarray) and v.ndim == 1:
        if v.dtype.kind == "c":
            return ("V", [complex(z) for z in v])
        if v.dtype.kind in "fiu":
            return ("V", [float(z) for z in v])
    return None


def op_line(case):
    t = ["nll", case["cls"], str(len(case["y"]))]
    for k in ("y", "s", "ic"):
        t += [common.f2b(v) for v in case[k]]
    p = case["pred"]
    if p[0] == "R":
        t.append("R")
    elif p[0] == "S":
        t += ["S", "c" if _is_c(p[1]) else "f"] + _tokens(p[1])
    else:
        cd = any(_is_c(v) for v in p[1])
        t += ["V", "c" if cd else "f", str(len(p[1]))]
        for v in p[1]:
            t += _tokens(complex(v)) if cd else _tokens(v)
    return " ".join(t)


def new_instance(L, cls):
    """An instance of the real class without running __init__ (no data files needed)."""
    o = object.__new__(getattr(L, cls))
    o.is_mse = cls == "MSE"
    return o


def set_data(inst, case):
    import numpy as np
    n = len(case["y"])
    inst.xvar = np.array(case.get("x") or [1.0 + 0.25 * k for k in range(n)], dtype=float)
    inst.yvar = np.array(case["y"], dtype=float)
    inst.yerr = np.array(case["s"], dtype=float)
    inst.inv_cov = np.array(case["ic"], dtype=float)


def call_real(inst, case, fn=None, params=None):
    """-> canonical result of inst.negloglike: ("raise", type) | ("S", cflag, re, im) | ("V", [...])"""
    import numpy as np
    f = fn if fn is not None else make_callable(case["pred"])
    a = params if params is not None else case.get("a", [1.0])
    with warnings.catch_warnings():
        warnings.simplefilter("ignore")
        with np.errstate(all="ignore"):
            try:
                r = inst.negloglike(a, f)
            except Exception as e:
                return ("raise", type(e).__name__)
    if r is None:
        return ("raise", "returned None")
    if isinstance(r, np.ndarray) and r.ndim >= 1:
        flat = [complex(z) for z in r.ravel()]
        c = int(np.iscomplexobj(r))
        return ("V", [(c, z.real, z.imag if c else 0.0) for z in flat])
    c = int(np.iscomplexobj(r))
    z = complex(r)
    return ("S", c, z.real, z.imag if c else 0.0)


def parse_model(line):
    t = line.split()
    if t[0] in ("raise", "nocls", "bad-op"):
        return (t[0],)
    if t[0] == "S":
        return ("S", int(t[1]), common.b2f(t[2]), common.b2f(t[3]))
    n = int(t[1])
    return ("V", [(int(t[2 + 3 * k]), common.b2f(t[3 + 3 * k]), common.b2f(t[4 + 3 * k])) for k in range(n)])


def _close(a, b, scale):
    ka, kb = _klass(a), _klass(b)
    if ka != kb:
        return False
    if ka != "fin":
        return True
    return abs(a - b) <= 1e-9 * max(abs(a), abs(b)) + 1e-9 * scale


def _scale(case):
    m = 1.0
    vals = list(case["y"]) + list(case["s"]) + list(case["ic"])
    p = case["pred"]
    vals += [p[1]] if p[0] == "S" else (list(p[1]) if p[0] == "V" else [])
    for v in vals:
        for part in ((v.real, v.imag) if _is_c(v) else (v,)):
            if part == part and abs(part) != INF:
                m = max(m, abs(part))
    return m


def same(real, mod, case):
    if real[0] == "raise":
        return mod[0] == "raise"
    if mod[0] != real[0]:
        return False
    sc = _scale(case)
    if real[0] == "S":
        if len(case["y"]) == 0 and real[1] != mod[1]:
            # an EMPTY complex128 array has a dtype but no elements; the model's arrays carry the dtype on the
            # elements only, so np.sum(<empty complex>) = 0j is 0.0 there. Outside the statement (no data, complex dtype).
            return real[2] == mod[2] == 0.0 and real[3] == mod[3] == 0.0
        return real[1] == mod[1] and _close(real[2], mod[2], sc) and _close(real[3], mod[3], sc)
    if len(real[1]) != len(mod[1]):
        return False
    return all(a[0] == b[0] and _close(a[1], b[1], sc) and _close(a[2], b[2], sc) for a, b in zip(real[1], mod[1]))


# --------------------------------------------------------------------------------------
# the independent oracle: the property statement, in plain Python (never the Lean model)
# --------------------------------------------------------------------------------------

def _finite(v):
    return (not _is_c(v)) and v == v and abs(v) != INF


def _bcast(pred, n):
    """prediction as a list of n python numbers, or None if shapes do not broadcast to n."""
    if pred[0] == "S":
        return [pred[1]] * n
    if pred[0] == "V":
        if len(pred[1]) == n:
            return list(pred[1])
        if len(pred[1]) == 1:
            return [pred[1][0]] * n
    return None


def documented(cls, y, s, f):
    """The documented formula, summand by summand with math.* and math.fsum. -> (value, sum of |summands|)"""
    terms = []
    for yi, si, fi in zip(y, s, f):
        if cls == "GaussLikelihood":
            terms += [(yi - fi) ** 2 / (2.0 * si ** 2), math.log(2.0 * math.pi) / 2.0, math.log(si)]
        elif cls == "PoissonLikelihood":
            terms += [fi, -yi * math.log(fi)]
        elif cls in SQRT_CLASSES:
            terms += [(math.sqrt(fi) - yi) ** 2 / (2.0 * si ** 2)]
        elif cls == "MSE":
            terms += [(yi - fi) ** 2]
    tot = math.fsum(terms)
    mag = math.fsum(abs(t) for t in terms)
    if cls == "MSE":
        tot, mag = tot / len(y), mag / len(y)
    return tot, mag


def oracle(case, real):
    """-> (verdict, category).  verdict None = property holds on this input, else a text saying what fails."""
    cls, y, s, ic, pred = case["cls"], case["y"], case["s"], case["ic"], case["pred"]
    n = len(y)
    if pred[0] == "R":
        if cls in SQRT_CLASSES:
            # CC/Mock.get_pred has no handler: the exception propagates. The statement speaks about predictions,
            # a raising model function has none: recorded, not judged.
            return None, "raising-callable:propagates" if real[0] == "raise" else "raising-callable:returned"
        # Likelihood.get_pred turns the exception into the prediction +inf
        if real[0] == "raise":
            return "base-class get_pred must turn a raising model function into the prediction inf, but negloglike raised %s" % real[1], "raising-callable"
        if real[0] == "S" and (real[2] != real[2] or real[3] != real[3]):
            return "result is NaN for a raising model function", "raising-callable"
        return None, "raising-callable"
    f = _bcast(pred, n)
    if f is None:
        return None, "shape-mismatch"          # outside the statement (numpy raises)
    # never NaN, whatever else
    if real[0] == "S" and (real[2] != real[2] or real[3] != real[3]):
        return "result is NaN (%r)" % (real,), "never-nan"
    if real[0] == "V" and any(z[1] != z[1] or z[2] != z[2] for z in real[1]):
        return "result contains NaN", "never-nan"
    cdtype = any(_is_c(v) for v in f)
    has_imag = any(_is_c(v) and v.imag != 0 for v in f)       # v.imag NaN counts: NaN != 0
    has_nan = any((v.real != v.real or v.imag != v.imag) if _is_c(v) else v != v for v in f)
    bad = None
    if has_imag:
        bad = "complex"
    elif cdtype:
        return None, "complex-dtype-zero-imag"  # outside the statement; correspondence still compares it
    elif has_nan:
        bad = "nan"
    elif cls == "PoissonLikelihood" and any(v <= 0 for v in f):
        bad = "nonpositive"
    elif cls in SQRT_CLASSES and any(v < 0 for v in f):
        bad = "sqrt-of-negative"                # the class's prediction sqrt(f) is NaN
    if bad is not None:
        if n == 0:
            return None, "bad:" + bad + ":empty-data"
        ok = real[0] == "S" and real[1] == 0 and real[2] == INF
        if not ok:
            return "prediction is %s but the result is %r, not +inf" % (bad, real), "bad:" + bad
        return None, "bad:" + bad
    # documented formula, where it is defined and the floating-point evaluation cannot overflow
    uses_sigma = cls in SQRT_CLASSES or cls == "GaussLikelihood"
    dom = (n >= 1 and all(_finite(v) for v in list(y) + list(f))
           and all(1e-6 <= abs(v) <= 1e6 or v == 0 for v in list(y) + list(f)))
    if dom and uses_sigma:
        dom = all(_finite(v) and 1e-6 <= v <= 1e6 for v in s)
    if dom and not uses_sigma:
        s = [1.0] * n
    if dom and cls == "PoissonLikelihood":
        dom = all(v > 0 for v in f)
    if dom and cls in SQRT_CLASSES:
        dom = all(v >= 0 for v in f) and all(_finite(c) and c == 1.0 / (si * si) for c, si in zip(ic, s))
    if not dom:
        return None, "no-claim"
    want, mag = documented(cls, y, s, f)
    if real[0] != "S" or real[1] != 0:
        return "finite in-domain inputs: documented value %r but got %r" % (want, real), "formula"
    if not (abs(real[2] - want) <= 1e-9 * abs(want) + 1e-11 * mag + 1e-300):
        return "documented formula gives %r, negloglike returned %r" % (want, real[2]), "formula"
    return None, "formula"


# --------------------------------------------------------------------------------------
# generators (ctx.rng only)
# --------------------------------------------------------------------------------------

def _mod(rng, lo=-2.0, hi=2.0):
    return round(10.0 ** rng.uniform(lo, hi), rng.choice([1, 2, 3, 6, 12]))


def _moderate(rng, signed=True):
    v = _mod(rng)
    if v == 0.0:
        v = 0.5
    return -v if signed and rng.random() < 0.4 else v


SPECIALS = [NAN, INF, -INF, 0.0, -0.0, -1.5, -1e-3, 1e200, -1e200, 1e-200, 5e-324, 1e160, 3.0]


def gen_case(rng, stream):
    cls = rng.choice(CLASSES)
    n = rng.choice([0, 1, 1, 2, 2, 3, 3, 4, 5, 6, 8]) if stream != "formula" else rng.choice([1, 2, 2, 3, 3, 4, 5, 6, 8])
    y = [_moderate(rng, signed=(cls != "PoissonLikelihood")) for _ in range(n)]
    if cls == "PoissonLikelihood" and rng.random() < 0.7:
        y = [float(rng.randint(0, 40)) for _ in range(n)]
    s = [_mod(rng, -1.5, 1.5) or 0.5 for _ in range(n)]
    if cls == "PoissonLikelihood":
        s = [math.sqrt(v) if v > 0 else 1.0 for v in y]
    ic = [1.0 / (v * v) for v in s]
    f = [_moderate(rng, signed=False) for _ in range(n)]
    if cls in SQRT_CLASSES and rng.random() < 0.5:
        f = [round((yi + rng.uniform(-0.5, 0.5) * si) ** 2, 6) for yi, si in zip(y, s)]
    if cls == "MSE" or cls == "GaussLikelihood":
        f = [v if rng.random() < 0.5 else -v for v in f]
    kind = "V"
    if stream == "formula":
        if rng.random() < 0.12:
            kind = "S"
    elif stream == "bad":
        if n == 0:
            n = 1; y, s, ic, f = [1.0], [1.0], [1.0], [1.0]
        k = rng.randrange(n)
        what = rng.choice(["nan", "cplx", "cplx", "nonpos"] if cls == "PoissonLikelihood" else ["nan", "cplx", "cplx", "neg" if cls in SQRT_CLASSES else "nan"])
        if what == "nan":
            f[k] = NAN
            if rng.random() < 0.2:
                f[rng.randrange(n)] = rng.choice([INF, -INF, 0.0])
        elif what == "cplx":
            im = _moderate(rng) if rng.random() < 0.85 else rng.choice([NAN, INF, -INF, 1e-8, 1e8])
            re = f[k] if rng.random() < 0.6 else rng.choice([-f[k], 0.0, NAN, INF, -INF])
            if abs(re) == INF and abs(im) != INF and cls in SQRT_CLASSES:
                re = f[k]        # sqrt(inf+bj) has imaginary part exactly 0: rounding territory, see ASSUMPTIONS
            f[k] = complex(re, im)
            if rng.random() < 0.3:
                f = [complex(v) for v in f]
        elif what == "nonpos":
            f[k] = rng.choice([0.0, -0.0, -_mod(rng), -INF, -5e-324])
        elif what == "neg":
            f[k] = rng.choice([-_mod(rng), -INF, -5e-324])
        if rng.random() < 0.1:
            kind = "S"; f = [f[k]]
    elif stream == "wild":
        r = rng.random()
        if r < 0.12:
            kind = "R"
        elif r < 0.30:
            kind = "S"; f = [rng.choice(SPECIALS + [_moderate(rng), float(rng.randint(-3, 9))])]
            if rng.random() < 0.25:
                f = [complex(f[0], rng.choice([0.0, 0.0, 1.0, -2.5]))]
        else:
            for k in range(n):
                if rng.random() < 0.45:
                    f[k] = rng.choice(SPECIALS)
            q = rng.random()
            if q < 0.15:                                # complex dtype, all imaginary parts zero
                f = [complex(v, 0.0) for v in f]
            elif q < 0.25 and n != 1:                   # length-1 vector broadcasts
                f = f[:1] if f else [2.0]
            elif q < 0.33:                              # shapes that do not broadcast
                f = f + [1.0, 2.0]
        if rng.random() < 0.35:                         # garbage data
            for v in (y, s, ic):
                for k in range(n):
                    if rng.random() < 0.3:
                        v[k] = rng.choice(SPECIALS)
    case = dict(cls=cls, y=y, s=s, ic=ic, stream=stream)
    if kind == "R":
        case["pred"] = ("R",)
    elif kind == "S":
        v = f[0] if f else 2.0
        case["pred"] = ("S", v, "py") if (stream == "wild" and not _is_c(v) and rng.random() < 0.5) else ("S", v)
    else:
        case["pred"] = ("V", f)
    return case


def real_functions():
    """Callables that really use x and the parameters (strings kept for the evidence/replay)."""
    import numpy as np
    return [
        ("a0*x**2", lambda x, a0: a0 * x ** 2, 1),
        ("a0 + a1*x", lambda x, a0, a1: a0 + a1 * x, 2),
        ("a0*x**a1", lambda x, a0, a1: a0 * x ** a1, 2),
        ("np.log(x - a0)", lambda x, a0: np.log(x - a0), 1),
        ("np.sqrt(a0 - x)", lambda x, a0: np.sqrt(a0 - x), 1),
        ("(a0 - x + 0j)**0.5", lambda x, a0: (a0 - x + 0j) ** 0.5, 1),
        ("1/(x - a0)", lambda x, a0: 1 / (x - a0), 1),
        ("a0", lambda x, a0: a0, 1),
        ("a0**a1 (scalar)", lambda x, a0, a1: a0 ** a1, 2),
        ("np.exp(a0*x)", lambda x, a0: np.exp(a0 * x), 1),
        ("x[5] (IndexError for short x)", lambda x, a0: x[1000] * a0, 1),
        ("a0 + a1*x + a2*x**2", lambda x, a0, a1, a2: a0 + a1 * x + a2 * x ** 2, 3),
    ]


# --------------------------------------------------------------------------------------
# run
# --------------------------------------------------------------------------------------

def _anchor_lines(L):
    import inspect
    want = {}
    for c, f in ANCHOR_FUNCS:
        fn = getattr(getattr(L, c, None), f, None)
        if fn is None:
            continue
        code = fn.__code__
        lines = sorted(set(ln for _, _, ln in code.co_lines() if ln is not None and ln > code.co_firstlineno))
        want["%s.%s" % (c, f)] = (code, lines)
    return want


def run(ctx):
    import numpy as np
    warnings.simplefilter("ignore")
    from esr.fitting import likelihood as L
    rng = ctx.rng
    drift = extract.drifted(ctx.proof.get("extract", {}), MODELLED)
    ctx.extra["source_drift"] = drift
    deep = (not ctx.quick) or bool(drift)
    # quick 20 000; quick escalated by source drift 600 000; thorough 1 500 000 (about 140 s per 10^6 cases)
    total = (1500000 if not ctx.quick else 600000) if deep else 20000
    gen_errs, src = [], ""
    try:
        src = open(os.path.join(common.LEAN, "ESRVerif", "Generated", "NLL.lean")).read()
        gen_errs = [l for l in src.splitlines() if l.startswith("-- unrecognised") or l.startswith("-- extractor failed")]
    except Exception as e:
        gen_errs = ["cannot read Generated/NLL.lean: %r" % e]
    for g in gen_errs:
        ctx.disagree("extract:NLL", g)
    ctx.extra["translated_classes"] = [c for c in CLASSES if ("(\"%s\"," % c) in src]

    # ---- line coverage of the anchored functions (sys.monitoring, cheap) ---------------------
    anchors = _anchor_lines(L)
    hit = set()
    mon = getattr(sys, "monitoring", None)
    TOOL = 3
    codes = {id(c): name for name, (c, _) in anchors.items()}
    if mon is not None:
        try:
            mon.use_tool_id(TOOL, "esrverif-c09")

            def on_line(code, ln):
                if id(code) in codes:
                    hit.add((codes[id(code)], ln))
                return mon.DISABLE
            mon.register_callback(TOOL, mon.events.LINE, on_line)
            for name, (c, _) in anchors.items():
                mon.set_local_events(TOOL, c, mon.events.LINE)
        except Exception as e:
            ctx.notes.append("line coverage unavailable: %r" % e)
            mon = None

    cases = []          # (case, real result, fn-description)
    # ---- stream "real": instances from the real constructors on the shipped / written data files ----
    insts = {}
    ddir = os.path.join(ctx.tmp, "c09data")
    os.makedirs(ddir, exist_ok=True)
    ctor_notes = {}
    try:
        xs = [0.5 + 0.37 * k for k in range(7)]
        with open(os.path.join(ddir, "g3.dat"), "w") as fh:
            for k, xv in enumerate(xs):
                fh.write("%r %r %r\n" % (xv, 2.0 + 0.8 * xv + 0.1 * (-1) ** k, 0.2 + 0.05 * k))
        with open(os.path.join(ddir, "p2.dat"), "w") as fh:
            for k, xv in enumerate(xs):
                fh.write("%r %r\n" % (xv, float(3 + 2 * k)))
        ctors = {"CCLikelihood": lambda: L.CCLikelihood(), "MockLikelihood": lambda: L.MockLikelihood(320, 0.1),
                 "MSE": lambda: L.MSE("g3.dat", "c09", data_dir=ddir), "GaussLikelihood": lambda: L.GaussLikelihood("g3.dat", "c09", data_dir=ddir),
                 "PoissonLikelihood": lambda: L.PoissonLikelihood("p2.dat", "c09", data_dir=ddir)}
        for c in CLASSES:
            try:
                with warnings.catch_warnings():
                    warnings.simplefilter("ignore")
                    insts[c] = ctors[c]()
                ctor_notes[c] = "constructor"
            except Exception as e:
                ctor_notes[c] = "constructor failed (%s: %s); object.__new__ used" % (type(e).__name__, str(e)[:80])
    except Exception as e:
        ctor_notes["setup"] = repr(e)
    ctx.extra["instances"] = ctor_notes
    fns = real_functions()
    nreal = 400 if deep else 60
    for k in range(nreal):
        c = CLASSES[k % len(CLASSES)]
        if c not in insts:
            continue
        inst = insts[c]
        name, fn, npar = fns[rng.randrange(len(fns))]
        a = [round(rng.uniform(-3, 6), 3) for _ in range(npar)]
        x = np.array(inst.xvar, dtype=float)
        try:
            with warnings.catch_warnings():
                warnings.simplefilter("ignore")
                with np.errstate(all="ignore"):
                    pv = fn(x, *np.atleast_1d(a))
            pred = pred_of_value(pv)
        except Exception:
            pred = ("R",)
        if pred is None:
            continue
        yv, sv = [float(v) for v in inst.yvar], [float(v) for v in np.broadcast_to(inst.yerr, inst.yvar.shape)]
        icv = [float(v) for v in inst.inv_cov] if hasattr(inst, "inv_cov") else [0.0] * len(yv)
        case = dict(cls=c, y=yv, s=sv, ic=icv, pred=pred, stream="real", x=[float(v) for v in x], fn=name, a=a)
        real = call_real(inst, case, fn=fn, params=a)
        cases.append((case, real))

    # ---- judge + correspond one batch (bounded memory) ---------------------------------------------
    cat_count, res_count, kind_count, cls_count = {}, {}, {}, {}
    st = dict(nbad=0, ncases=0, seen=set())

    def process(cases):
        if not cases:
            return
        st["ncases"] += len(cases)
        # the property itself, on the real results
        for case, real in cases:
            verdict, cat = oracle(case, real)
            key = "%s/%s" % (case["cls"], cat)
            cat_count[key] = cat_count.get(key, 0) + 1
            rk = real[0] if real[0] != "S" else ("cplx-result" if real[1] else _klass(real[2]))
            res_count[rk] = res_count.get(rk, 0) + 1
            p = case["pred"]
            pk = p[0] if p[0] == "R" else p[0] + ("c" if any(_is_c(v) for v in ([p[1]] if p[0] == "S" else p[1])) else "f")
            kind_count[pk] = kind_count.get(pk, 0) + 1
            cls_count[case["cls"]] = cls_count.get(case["cls"], 0) + 1
            if verdict is not None:
                ctx.fail("%s:%s" % (case["cls"], cat), "%s.negloglike: %s" % (case["cls"], verdict), replay_data(case))
            if case["stream"] not in st["seen"] and len(case["y"]) >= 2 and len(case["y"]) <= 8:
                st["seen"].add(case["stream"])
                ctx.sample(dict(stream=case["stream"], case=replay_data(case), code=repr(real), oracle=cat))
        # correspondence: float interpreter of the regenerated terms vs the real classes
        if st["nbad"] < 0:
            return
        try:
            lines = [op_line(c) for c, _ in cases]
            for (case, _), line in zip(cases, lines):
                ctx.case(line, nontrivial=(len(case["y"]) >= 2 and case["pred"][0] != "R"))
            out = common.model(lines)
            for (case, real), o in zip(cases, out):
                mod = parse_model(o)
                if not same(real, mod, case):
                    st["nbad"] += 1
                    if st["nbad"] <= 5:
                        ctx.disagree("corr:negloglike:%s" % case["cls"], dict(case=replay_data(case), code=repr(real), model=repr(mod)))
            if cases and len(ctx.samples) < 4:
                j = len(cases) // 2
                ctx.sample(dict(op=lines[j][:400], code=repr(cases[j][1]), model=out[j]))
        except Exception as e:
            st["nbad"] = -1
            ctx.disagree("corr:negloglike", "model could not be run: %r" % (e,))

    process(cases)

    # ---- generated streams on instances whose attributes are set directly ---------------------
    bare = {c: new_instance(L, c) for c in CLASSES}
    streams = ["formula"] * 35 + ["bad"] * 35 + ["wild"] * 30
    BATCH = 25000
    batch = []
    for k in range(total):
        case = gen_case(rng, streams[k % 100])
        inst = bare[case["cls"]]
        set_data(inst, case)
        batch.append((case, call_real(inst, case)))
        if len(batch) >= BATCH:
            process(batch)
            batch = []
    process(batch)
    nbad = st["nbad"]

    if mon is not None:
        try:
            for name, (c, _) in anchors.items():
                mon.set_local_events(TOOL, c, 0)
            mon.free_tool_id(TOOL)
        except Exception:
            pass
    missing = ["%s:%d" % (name, ln) for name, (c, lines) in sorted(anchors.items()) for ln in lines if (name, ln) not in hit]
    ctx.extra["anchored_lines_never_executed"] = missing if mon is not None else "not measured"

    # ---- directed observation (not judged): imaginary part lost to underflow inside np.sqrt -----
    try:
        inst = new_instance(L, "CCLikelihood")
        ob = dict(cls="CCLikelihood", y=[1.0], s=[1.0], ic=[1.0], pred=("V", [complex(1e300, 1e-300)]))
        set_data(inst, ob)
        ctx.extra["observation_sqrt_underflow"] = dict(input="CCLikelihood, eq_numpy -> [1e300+1e-300j], y=[1], sigma=[1]",
                                                      result=repr(call_real(inst, ob)),
                                                      note="np.sqrt rounds the imaginary part to 0, np.isreal then passes; treated as rounding (not modelled)")
    except Exception as e:
        ctx.extra["observation_sqrt_underflow"] = repr(e)

    ctx.extra["corr_obligations"] = 1
    ctx.extra["corr_discharged"] = int(nbad == 0)
    ctx.extra["correspondence"] = dict(cases=st["ncases"], mismatches=nbad, tolerance="class of value exact; magnitude 1e-9 relative")
    ctx.extra["oracle_categories"] = dict(sorted(cat_count.items()))
    ctx.extra["result_classes"] = res_count
    ctx.extra["prediction_kinds"] = kind_count
    ctx.extra["per_class"] = cls_count
    ctx.extra["exhaustive"] = False


def replay_data(case):
    p = case["pred"]
    if p[0] == "R":
        pr = ["R"]
    elif p[0] == "S":
        pr = ["S", _num_repr(p[1])] + (["py"] if p[2:] == ("py",) else [])
    else:
        pr = ["V", [_num_repr(v) for v in p[1]]]
    d = dict(cls=case["cls"], y=[repr(v) for v in case["y"]], sigma=[repr(v) for v in case["s"]],
             inv_cov=[repr(v) for v in case["ic"]], eq_numpy_returns=pr, stream=case.get("stream", "?"))
    if "fn" in case:
        d["fn"] = case["fn"]; d["a"] = case["a"]; d["x"] = [repr(v) for v in case["x"]]
    return d


def case_of_replay(rp):
    pr = rp["eq_numpy_returns"]
    if pr[0] == "R":
        pred = ("R",)
    elif pr[0] == "S":
        pred = ("S", _num_parse(pr[1])) + (("py",) if pr[2:] == ["py"] else ())
    else:
        pred = ("V", [_num_parse(v) for v in pr[1]])
    case = dict(cls=rp["cls"], y=[float(v) for v in rp["y"]], s=[float(v) for v in rp["sigma"]],
                ic=[float(v) for v in rp["inv_cov"]], pred=pred, stream=rp.get("stream", "?"))
    if "x" in rp:
        case["x"] = [float(v) for v in rp["x"]]
    return case


def replay(ctx, data):
    from esr.fitting import likelihood as L
    case = case_of_replay(data["replay"])
    inst = new_instance(L, case["cls"])
    set_data(inst, case)
    real = call_real(inst, case)
    verdict, cat = oracle(case, real)
    print("%s.negloglike on y=%s sigma=%s inv_cov=%s, eq_numpy -> %s" % (case["cls"], case["y"], case["s"], case["ic"], data["replay"]["eq_numpy_returns"]))
    print("  returned %r ; oracle category %s ; %s" % (real, cat, verdict or "as documented"))
    return verdict is None
