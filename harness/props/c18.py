"""C18 — converting a formula string to a tree preserves the function."""
import io, contextlib, json, math, os, re, sys, time
from fractions import Fraction
import common, extract
import oracle_tree as ot

LEAN_MODULE = ["ESRVerif.Props.C18", "ESRVerif.Props.C18b", "ESRVerif.Props.C18c"]
LEVEL = "other"
LEVEL_TEXT = ("Lean theorems over a hand model of DecoratedNode.__init__/to_list/count_nodes, of the relabelling pass of "
              "fit_from_string/string_to_aifeyn and of the choice string_to_node makes among its four parse variants (special-case tables, string "
              "literals, the variants' order and flags, check_operators' rule chain and the call sites' flags regenerated from the source): the label "
              "list is the prefix form of a tree (valid arity string) and evaluates, under ESR operator semantics, to the function of the sympy "
              "tree wherever all power bases are positive; complexity = number of labels of the returned variant = the minimum node count over the "
              "variants that did not raise (first such index), restricted to in-basis variants under check_ops; string_to_node raises iff all "
              "variants raise; float replacement keeps every numeric label unless requested and never for direct children of pow, parameters "
              "numbered in order. PARTIAL: which sympy tree each of sympify/kernS/powsimp/factor/evalf produces for a string, and that str() of a "
              "sympy number denotes its value, are third-party behaviour (the four candidate trees are input of the model; assumed, sampled); two "
              "to_list branches that emit a binary label with one operand are excluded by hypothesis and reported as a defect.  "
              "The models are functions of their arguments; that the code is one is a checked obligation (Props/C18c): string_api_call_local - decided on a table "
              "regenerated from fit_single.py (cells the string API touches across calls, from the C16 cell analysis; origin of every list it rewrites in place) - no carried "
              "cell is changed by the string API's own code unless every read of it is copied first, and the relabelled list is created in the same call on every path; "
              "relabel_history_independent (a memo that returns copies: every history of calls returns what fresh calls return) and shared_list_leaks (a memo that returns "
              "the cached list: replace_floats=True then False returns the float-replaced labels).  Sampled on the real code: call-sequence histories in one process, every "
              "ordered pair of option settings per formula, each call against the same call as the first call of a fresh process.")
TECHNIQUE = ("Lean 4 proof on a hand model + regenerated tables; model-code correspondence on grammar-generated formulas: ALL FOUR candidate trees of "
             "the real run (the trees string_to_node itself saw, via a memoised string_to_expr) are serialised and fed to the model's selection, "
             "compared with the real string_to_node under six flag settings and with the string API end to end; independent prefix-tree evaluator "
             "vs sympy.lambdify of the formula on the real string API; order-insensitive minimum-node-count oracle on the real string_to_node; "
             "Lean decision over the regenerated cell / alias table of the string API + induction over call histories of a copying memo; PRNG call-sequence histories of "
             "string_to_aifeyn / fit_from_string (optimiser stubbed) / string_to_node in one process (Euler circuit over the 8 option settings per formula: all 64 ordered "
             "pairs on every seed) against fresh-process references")
RULE = ("call histories: one case = one (basis, formula) of a history = 65 calls covering all 64 ordered pairs of the 8 option settings; "
        "formula strings drawn from a grammar (x, a0..a3, integers, floats, + - * / ** unary minus, reciprocals, pow with symbolic and numeric "
        "exponents, the unary operators of the basis) for each of the six shipped bases; distinct = (basis, formula); non-trivial = at least "
        "three labels and at least one evaluation point where all power bases are positive")
EXPLANATION = LEVEL_TEXT
TRUSTED = ["harness/extractors/strapi.py over harness/extractors/memstate.py (which cells survive a call and who touches them: C16's analysis; origin of the in-place rewritten lists: a result of .to_list(), a comprehension / display / [..]*n, list(), sorted(), .copy(), [:], copy.copy/deepcopy, a local alias of such, a helper of fit_single.py all of whose returns are such and that does not also store the object into a cell; label lists hold strings, so a shallow copy is a copy; anything else fails closed)",
           "harness/workers/strapi_seq.py, harness/strapi_hist.py (histories and fresh-process references: a forked child of an interpreter that imported ESR and never called the API)",
           "hand model ESRVerif/Model/ToList.lean, Model/ToListSelect.lean (tied by correspondence on the serialised sympy trees: class name, is_number, is_symbol, str, exact value, args / as_two_terms)",
           "harness/extractors/tolist.py + harness/extractors/_norm_c18.py (special-case table, to_list branches, label renaming, the skeleton of string_to_node, check_operators' chain, call-site flags: each function is run symbolically into a normal form that is matched against the shape the Lean model has; the normalisations, all value-preserving and never dropping or adding an evaluation that can raise, are: substitution of pure locals / self attributes / list items by the expression assigned (renames, hoisted temporaries, tuple and chained assignment, tuple unpacking of as_two_terms / string_to_node / check_tree), conditional expression = if/else, early return = result variable, else-after-return, pass = return None, guard inversion, negation normal form (double negation, De Morgan, not == / != / is / in), str(<int>) = literal, tuple = list after `in`, range(len(L)) = enumerate(L) item loops, comprehension = append / += loop, one level of private-helper inlining, literal-index or literal-tuple-loop forms of the four try blocks (unrolled, constant tests folded), 'a'+str(k) = 'a%d'%k = 'a{}'.format(k) = f'a{k}' for an enumerate index; anything else fails closed)",
           "class invariant used by the translator: every DecoratedNode built from an expression has the attributes __init__ assigns unconditionally (read off __init__ on every run), a basis is a list of three lists; sympy's as_two_terms returns a pair, string_to_node / check_tree return triples",
           "sympy 1.14: sympify/kernS/evalf/powsimp/factor/str/== on numbers (which tree each parse variant yields is observed, not modelled)",
           "numpy.nanargmin (first minimal non-NaN index; ValueError on an all-NaN array) — modelled by hand, exercised through the real string_to_node",
           "harness/oracle_tree.py (independent evaluator) and sympy.lambdify of the formula parsed with esr.fitting.sympy_symbols.sympy_locs",
           "Python eval() inside generator.is_float is modelled for numeric literals only (incl. the OverflowError of float(<int>) beyond the double range)"]
ASSUMPTIONS = ["str() of a sympy number denotes its value (Float: 15 significant digits; values compared to 1e-8 relative plus the spread caused by a last-digit error of every printed float)",
               "a formula with none of the six evaluation points admissible (all power bases positive; typically nowhere a real function, e.g. (-1.0)**2.5 or log_abs(a0-a0)) is not held to name only basis operators (labels I, zoo, -oo, sinh, im ...): counted in coverage.unknown_label_without_admissible_point_not_counted; every other failure kind is still reported for it",
               "'never inside exponents' is read as the code documents it: direct children of pow keep their number; a number deeper inside an exponent is replaced (counted in coverage.interpretation_deeper_exponent_replaced, not alarmed on)",
               "power bases: every Pow node of the formula's sympy tree and of the tree the conversion chose, and every explicit **, pow, sqrt, inv, cube argument and denominator, must be positive at an evaluation point",
               "the four candidate trees are taken from the real run (string_to_expr with each flag combination, .evalf() when requested); what sympy returns for them is not modelled",
               "minimum node count is read off the property's mechanism ('four parse variants, minimum node count') and string_to_node's docstring (allow_eval = the kernS=False, evaluate=True option): the oracle on the real code is insensitive to the order of the variants, i.e. a pure reordering (different tie-breaking) is not a violation",
               "an integer label beyond the range of a double (>= 2^1024 - 2^970) is not a number for generator.is_float (float(<int>) raises OverflowError): model and in-basis oracle follow the code"]
# tables whose committed version may stand in as a hand-written model when the translator cannot read the source;
# value = the correspondence that then ties it to the code (common.prove / common.decide)
FALLBACK = {'StrApi': 'call-sequence histories of the real string API in one process (every ordered pair of option settings on every formula of the pool, each call against the same call as the first call of a fresh process), at thorough depth', 'ToList': 'real DecoratedNode / to_list / relabelling / check_operators / string_to_node (its string_to_expr calls traced in order, six flag settings) and the string API on grammar formulas vs the Lean to_list, relabel and selection models built from the committed table, at thorough depth', 'Shape': 'basis tables: labels_to_shape correspondence'}
MODELLED = ["generator.py:DecoratedNode.__init__", "generator.py:DecoratedNode.to_list", "generator.py:DecoratedNode.count_nodes",
            "generator.py:DecoratedNode.is_unity", "generator.py:string_to_node", "generator.py:string_to_expr", "generator.py:labels_to_shape",
            "generator.py:is_float", "fit_single.py:fit_from_string", "fit_single.py:string_to_aifeyn", "generator.py:check_tree",
            "generator.py:check_operators"]

EXTRA_BASES = [
    ("x_cube_sqrt", [["x", "a"], ["cube", "sqrt", "inv", "square"], ["+", "*", "-", "/", "pow"]]),
    ("x_nodiv", [["x", "a"], ["exp", "sqrt_abs"], ["+", "*", "pow"]]),
    ("x_noinv", [["x", "a"], ["square", "log_abs"], ["+", "*", "-", "/", "pow"]]),
]
PARAMS = ["a0", "a1", "a2", "a3"]
ANCHORS = {"esr/generation/generator.py": [(71, 212), (415, 447), (494, 573)], "esr/fitting/fit_single.py": [(105, 208), (243, 302)]}

# --------------------------------------------------------------------------------------------------------------
# grammar
# --------------------------------------------------------------------------------------------------------------

INTS = ["1", "2", "3", "4", "5", "10"]
FLOATS = ["0.5", "1.5", "2.5", "0.25", "3.7", "1.0", "2.0", "0.1"]
NEGS = ["(-1)", "(-2)", "(-0.5)", "(-1.0)"]
EXPS = ["2", "3", "-1", "-2", "0.5", "1.5", "2.5", "-0.5", "(1/2)", "4", "-1.5"]


# every variant raises / only the sympify variants raise (wrong number of arguments for an ESR function class; kernS builds an
# undefined function) / a variant converts to a bare `zoo`
RAISING = ["x+(", "x***2", "exp(x", "a0*", "2x", "exp()", "pow(x)", "inv(x)+a0*", "sqrt_abs(x, x)", "inv(x,2)", "pow(x,a0,2)", "square(inv())",
           "1/(x-x)", "(x-x)**(-1)", "x*^2", "Abs(x)**2"]


def gen_formula(rng, basis, depth, exotic=False):
    def leaf():
        r = rng.random()
        if r < 0.40:
            return "x"
        if r < 0.75:
            return rng.choice(PARAMS[:rng.choice([1, 2, 2, 3, 4])])
        if r < 0.86:
            return rng.choice(INTS)
        if r < 0.90:
            return rng.choice(NEGS)
        return rng.choice(FLOATS)

    def atomish(s):
        return re.match(r"[A-Za-z0-9_.]+\Z", s) is not None

    def par(s):
        return s if atomish(s) else "(" + s + ")"

    def go(d):
        if d <= 0 or rng.random() < 0.12:
            return leaf()
        r = rng.random()
        if r < 0.42:
            op = rng.choice(["+", "-", "*", "/", "*", "+"])
            a, b = go(d - 1), go(d - 1)
            sp = rng.choice(["", " "])
            return par(a) + sp + op + sp + par(b)
        if r < 0.52:
            return "pow(" + go(d - 1) + "," + rng.choice(["", " "]) + go(d - 1) + ")"
        if r < 0.60:
            return "pow(" + go(d - 1) + ", " + rng.choice(EXPS).strip("()") + ")"
        if r < 0.70:
            return par(go(d - 1)) + "**" + rng.choice(EXPS if rng.random() < 0.8 else ["(" + go(d - 2) + ")"])
        if r < 0.72:
            return "-" + par(go(d - 1))
        if r < 0.75:
            # a power times / over minus one (the "* inv" / "/ inv" branches of to_list)
            pw = "pow(" + go(d - 1) + "," + go(d - 1) + ")" if rng.random() < 0.6 else par(go(d - 1)) + "**" + par(go(d - 1))
            return pw + rng.choice(["*(-1)", "/(-1)", " * (-1)"])
        if r < 0.80:
            return "1/" + par(go(d - 1))
        un = list(basis[1])
        if exotic:
            un += ["Abs", "sin", "cube", "exp", "sqrt", "log", "foo"]
        if not un:
            return par(go(d - 1)) + "*" + par(go(d - 1))
        if exotic and rng.random() < 0.15:
            return rng.choice(["pi", "E", "sqrt(2)", "2**3", "x*x*x", "1*x*1", "x*(-1)", "(-1)*pow(x,a0)", "pow(x,a0)*(-1)", "pow(x,a0)/(-1)", "3*x/3"])
        return rng.choice(un) + "(" + go(d - 1) + ")"
    return go(depth)


# --------------------------------------------------------------------------------------------------------------
# serialising the sympy tree exactly as DecoratedNode.__init__ reads it
# --------------------------------------------------------------------------------------------------------------

def _hex(s):
    return s.encode("utf-8").hex() if s else "-"


def _float_frac(e):
    sign, man, exp, bc = e._mpf_
    if man == 0 and exp != 0:
        return None                                   # inf / nan
    v = Fraction(int(man)) * (Fraction(2) ** int(exp))
    return -v if sign else v


def serialise(e):
    out = []

    def go(e):
        args = e.args
        k = len(args)
        isnum = bool(getattr(e, "is_number", False))
        issym = bool(getattr(e, "is_symbol", False))
        st = str(e) if isnum else (e.name if issym else "")
        num = "-"
        if k == 0 and isnum:
            if getattr(e, "is_Rational", False):
                num = "r%d/%d" % (int(e.p), int(e.q)) if abs(int(e.p)).bit_length() <= 4000 and int(e.q).bit_length() <= 4000 else "o"
            elif getattr(e, "is_Float", False):
                fr = _float_frac(e)
                if fr is None or fr.numerator.bit_length() > 4000 or fr.denominator.bit_length() > 4000:
                    num = "o"                          # inf/nan, or beyond Python's int->str digit limit
                else:
                    num = "f%d/%d@%d" % (fr.numerator, fr.denominator, int(e._prec))
            else:
                num = "o"
        out.append("%s:%d:%s:%s:%s" % (e.__class__.__name__, k, (("n" if isnum else "") + ("s" if issym else "")) or "-", _hex(st), num))
        if k > 2:
            if hasattr(e, "as_two_terms"):
                a, r = e.as_two_terms()
                go(a); go(r)
            else:
                go(args[0]); go(args[1])
        else:
            for a in args:
                go(a)
    go(e)
    return out


def _bs(c):
    return "_" if not c else ",".join(c)


def _sendable(labels):
    return all(isinstance(l, str) and l and not re.search(r"\s", l) for l in labels)


# --------------------------------------------------------------------------------------------------------------
# the formula itself: value and power-base positivity, independent of the conversion
# --------------------------------------------------------------------------------------------------------------

class _V(object):
    """float wrapper that records whether every power base / denominator met so far is positive"""
    __slots__ = ("v",)
    ok = True

    def __init__(self, v):
        self.v = float(v.v if isinstance(v, _V) else v)

    @staticmethod
    def base(a):
        if not (_V(a).v > 0):
            _V.ok = False

    def __add__(s, o): return _V(s.v + _V(o).v)
    __radd__ = __add__
    def __sub__(s, o): return _V(s.v - _V(o).v)
    def __rsub__(s, o): return _V(_V(o).v - s.v)
    def __mul__(s, o): return _V(s.v * _V(o).v)
    __rmul__ = __mul__
    def __neg__(s): return _V(-s.v)
    def __pos__(s): return s

    def __truediv__(s, o):
        _V.base(o); return _V(s.v / _V(o).v)

    def __rtruediv__(s, o):
        _V.base(s); return _V(_V(o).v / s.v)

    def __pow__(s, o):
        _V.base(s); return _V(math.pow(s.v, _V(o).v))

    def __rpow__(s, o):
        _V.base(o); return _V(math.pow(_V(o).v, s.v))


def _vfun(f, base=False):
    def g(a):
        if base:
            _V.base(a)
        return _V(f(_V(a).v))
    return g


def _vpow(a, b):
    _V.base(a)
    return _V(math.pow(abs(_V(a).v), _V(b).v))


_VNS = {"pow": _vpow, "pow_abs": _vpow, "sqrt_abs": _vfun(lambda a: math.sqrt(abs(a)), True), "sqrt": _vfun(math.sqrt, True),
        "log_abs": _vfun(lambda a: math.log(abs(a))), "log": _vfun(math.log, True), "exp": _vfun(math.exp), "sin": _vfun(math.sin),
        "inv": _vfun(lambda a: 1.0 / a, True), "square": _vfun(lambda a: a * a), "cube": _vfun(lambda a: a * a * a, True),
        "tenexp": _vfun(lambda a: math.pow(10.0, a)), "log10_abs": _vfun(lambda a: math.log10(abs(a))), "Abs": _vfun(abs), "__builtins__": {}}

_LAMBDA_FUNS = {"log_abs": lambda a: math.log(abs(a)), "sqrt_abs": lambda a: math.sqrt(abs(a)), "square": lambda a: a * a, "cube": lambda a: a * a * a,
                "inv": lambda a: 1.0 / a, "pow_abs": lambda a, b: math.pow(abs(a), b), "tenexp": lambda a: math.pow(10.0, a),
                "log10_abs": lambda a: math.log10(abs(a))}


def _explicit_ok(formula, env):
    _V.ok = True
    ns = dict(_VNS)
    ns.update({k: _V(v) for k, v in env.items()})
    try:
        r = eval(formula, ns)
        v = _V(r).v
    except Exception:
        return False, None
    return _V.ok, v


def _pow_bases(expr):
    import sympy
    return [p.base for p in expr.atoms(sympy.Pow)]


def _lamb(names, exprs):
    import sympy
    syms = {}
    for e in exprs:
        for s in e.free_symbols:
            syms.setdefault(s.name, []).append(s)
    # same-named symbols with different assumptions (sympify vs kernS): substitute all by one dummy per name
    args = [sympy.Dummy(n) for n in names]
    sub = {}
    for n, d in zip(names, args):
        for s in syms.get(n, []):
            sub[s] = d
    ex2 = [e.xreplace(sub) for e in exprs]
    return sympy.lambdify(args, ex2, modules=[_LAMBDA_FUNS, "math"])


def formula_points(formula, points, chosen):
    """[(env, value)] at the points where all power bases are positive; value by sympy.lambdify of the formula parsed with
    ESR's generation symbol table"""
    import sympy
    from esr.fitting.sympy_symbols import sympy_locs
    names = ["x"] + PARAMS
    ee = sympy.sympify(formula, locals=dict(sympy_locs))
    extra = [s.name for s in ee.free_symbols if s.name not in names]
    if extra or ee.has(sympy.zoo, sympy.nan, sympy.oo, -sympy.oo, sympy.I):
        return None                                   # foreign symbol, or nowhere a finite real function: out of scope
    bases = _pow_bases(ee)
    for c in chosen:
        if c is not None:
            bases += _pow_bases(c)
    f = _lamb(names, [ee] + bases)
    out = []
    for env in points:
        ok, v_py = _explicit_ok(formula, env)
        if not ok:
            continue
        try:
            vals = f(*[env[n] for n in names])
            vals = [float(v) for v in vals]
        except Exception:
            continue
        if not all(math.isfinite(v) for v in vals) or not all(b > 0 for b in vals[1:]) or abs(vals[0]) > 1e12:
            continue
        out.append((env, vals[0]))
    return out


def _close(a, b):
    return math.isfinite(a) and math.isfinite(b) and abs(a - b) <= 1e-8 * max(1.0, abs(a), abs(b))


# --------------------------------------------------------------------------------------------------------------
# one formula on the real code (+ the oracle of the property)
# --------------------------------------------------------------------------------------------------------------

_ST = {}


def _install():
    """patch the staged modules once per process: memoised string_to_node, no optimiser, capture of the aifeyn labels"""
    if _ST.get("installed"):
        return
    from esr.generation import generator as g
    import esr.fitting.fit_single as fs
    orig = g.string_to_node
    _ST["orig_s2n"] = orig
    _ST["cache"] = {}

    def memo(s, basis_functions, *a, **k):
        key = (s, repr(basis_functions), repr(a), repr(sorted(k.items())))
        c = _ST["cache"]
        if key not in c:
            try:
                c[key] = (True, orig(s, basis_functions, *a, **k))
            except Exception as e:
                c[key] = (False, e)
        ok, r = c[key]
        if not ok:
            raise r
        return r
    g.string_to_node = memo
    # string_to_expr: memoised per formula (the candidate trees the harness serialises ARE the trees string_to_node saw;
    # sympy objects are immutable) and traced (which parse variants a call of string_to_node really ran, in which order)
    orig_s2e = g.string_to_expr
    _ST["orig_s2e"] = orig_s2e
    _ST["s2e_cache"] = {}
    _ST["s2e_trace"] = None

    def s2e(s, kern=False, evaluate=False, locs=None):
        if _ST["s2e_trace"] is not None:
            _ST["s2e_trace"].append((bool(kern), bool(evaluate)))
        key = (s, bool(kern), bool(evaluate), None if locs is None else id(locs))
        c = _ST["s2e_cache"]
        if key not in c:
            try:
                c[key] = (True, orig_s2e(s, kern=kern, evaluate=evaluate, locs=locs))
            except Exception as e:
                c[key] = (False, e)
        ok, r = c[key]
        if not ok:
            raise r
        return r
    g.string_to_expr = s2e
    _ST["orig_single"] = fs.single_function
    fs.single_function = lambda labels, *a, **k: (0.0, 0.0, []) if k.get("return_params") else (0.0, 0.0)
    orig_t2a = fs.tree_to_aifeyn
    _ST["orig_t2a"] = orig_t2a

    def t2a(labels, basis_functions, verbose=True):
        _ST["aif_labels"] = list(labels)
        return orig_t2a(labels, basis_functions, verbose=False)
    fs.tree_to_aifeyn = t2a
    _ST["installed"] = True
    _monitor_start()


def _uninstall():
    if not _ST.get("installed"):
        return
    from esr.generation import generator as g
    import esr.fitting.fit_single as fs
    g.string_to_node = _ST["orig_s2n"]
    g.string_to_expr = _ST["orig_s2e"]
    fs.single_function = _ST["orig_single"]
    fs.tree_to_aifeyn = _ST["orig_t2a"]
    _ST["installed"] = False


def _monitor_start():
    """executed lines of the anchored files (each line reported once, then disabled)"""
    _ST["lines"] = set()
    mon = getattr(sys, "monitoring", None)
    if mon is None:
        return
    tid = 3
    try:
        mon.use_tool_id(tid, "c18cov")
    except Exception:
        return

    def cb(code, line):
        fn = code.co_filename
        if fn.endswith("generation/generator.py") or fn.endswith("fitting/fit_single.py"):
            _ST["lines"].add(("esr/generation/generator.py" if fn.endswith("generator.py") else "esr/fitting/fit_single.py", line))
        return mon.DISABLE
    mon.register_callback(tid, mon.events.LINE, cb)
    mon.set_events(tid, mon.events.LINE)


def _silent(f, *a, **k):
    with contextlib.redirect_stdout(io.StringIO()):
        return f(*a, **k)


def _exc(e):
    return type(e).__name__


def _exd(e):
    """an exception as data: type, where (innermost frame), text"""
    import traceback
    tb = traceback.extract_tb(e.__traceback__)
    where = "?"
    if tb:
        fr = tb[-1]
        where = "%s:%d in %s" % (fr.filename.split("/esr/")[-1] if "/esr/" in fr.filename else os.path.basename(fr.filename), fr.lineno, fr.name)
    return dict(exc=type(e).__name__, where=where, text=str(e)[:200])


def _rs(r):
    return "%s at %s: %s" % (r.get("exc"), r.get("where", "?"), r.get("text", "")) if r.get("where") else str(r.get("exc"))


def _hx(phase, e):
    """an exception raised by HARNESS code inside a job: a broken obligation of that phase, never a crash"""
    d = _exd(e)
    return dict(phase=phase, type=d["exc"], where=d["where"], text=d["text"])


def _ops_sig(labels):
    return ",".join(sorted(set(l for l in labels if ot.number_value(l) is None and not re.match(r"(a\d+|x)\Z", l))))


def _print_slack(names, basis, env, v):
    """how far the value can move when every printed float (15 significant digits, relative error <= 5e-15) is off in
    its last digit: ill-conditioned formulas (sin of a huge power) must not be reported as a change of function"""
    eps = 1e-12
    tot = 0.0
    for j, l in enumerate(names):
        x = ot.number_value(l)
        if x is None or not re.search(r"[.eE]", l) or x == 0 or not math.isfinite(x):
            continue
        for sgn in (1.0, -1.0):
            trial = list(names)
            trial[j] = repr(x * (1.0 + sgn * eps))
            try:
                w = ot.eval_labels(trial, basis, env)
            except Exception:
                return float("inf")
            if not math.isfinite(w):
                return float("inf")
            tot += abs(w - v) / 2.0
    return 0.04 * tot


def _check_labels(api, labels, basis, pts, fails, rename, param_env=None):
    """well-formed + same function. returns parsed tree or None"""
    names = [ot.api_name(l) for l in labels] if rename else list(labels)
    try:
        tree = ot.parse(names, basis)
    except ot.Malformed as m:
        fails.append(("%s:not-well-formed:%s" % (api, ot.diagnose(names, basis)), "%s returned labels %r which are not the prefix form of a tree over the basis (%s)" % (api, labels, m)))
        return None
    for env, fv in pts or []:
        e2 = dict(env)
        if param_env is not None:
            e2 = param_env(env)
            if e2 is None:
                continue
        try:
            v = ot.evaluate(tree, e2)
        except ot.Malformed as m:
            fails.append(("%s:not-well-formed:%s" % (api, m.sig), "%s labels %r cannot be evaluated (%s)" % (api, labels, m)))
            return tree
        except (ArithmeticError, ValueError, OverflowError):
            continue
        if not _close(v, fv) and abs(v - fv) > _print_slack(names, basis, e2, v):
            fails.append(("%s:value-mismatch:%s" % (api, _ops_sig(names)),
                          "%s labels %r evaluate to %.12g but the formula is %.12g at %s (all power bases positive there)" % (
                              api, labels, v, fv, {k: round(x, 6) for k, x in e2.items()})))
            break
    return tree


class _Timeout(BaseException):
    """not an Exception: ESR's `except Exception` around each parse variant must not swallow it"""


def _alarm(signum, frame):
    raise _Timeout()


JOB_TIMEOUT_S = 8.0


def _blank(job, mode, why):
    formula, bname, basis, points, _ = job
    bad = dict(ok=False, exc=why, where="harness", text=why)
    return dict(f=formula, b=bname, mode=mode, fails=[], interp=0, s2n=dict(bad), ev=dict(bad), F0=dict(bad), F1=dict(bad), A0=dict(bad), A1=dict(bad),
                admissible=0, lines=[], cands={}, sel={}, trace={}, sel_fails=[], harness_exc=[])


def process(job):
    """one formula under a wall-clock limit (sympy can take minutes on a pathological power tower).  NEVER raises: whatever
    the real code raises is recorded per call by _process (type, where, text) and judged by the oracle; whatever harness
    code raises comes back in rec["harness_exc"] and becomes a broken obligation (ctx.disagree) in _compare."""
    import signal
    old = signal.signal(signal.SIGALRM, _alarm)
    signal.setitimer(signal.ITIMER_REAL, JOB_TIMEOUT_S)
    try:
        return _process(job)
    except _Timeout:
        return _blank(job, "timeout", "harness-timeout")
    except Exception as e:
        rec = _blank(job, "harness-exc", "harness-exception")
        rec["harness_exc"].append(_hx("process", e))
        return rec
    finally:
        signal.setitimer(signal.ITIMER_REAL, 0)
        signal.signal(signal.SIGALRM, old)


def _process(job):
    """job = (formula, basis name, basis, points, mode) ; mode: 'full' | 'corr' (no oracle: exotic formula or extra basis)"""
    formula, bname, basis, points, mode = job
    _install()
    from esr.generation import generator as g
    import esr.fitting.fit_single as fs
    _ST["cache"].clear()
    _ST["s2e_cache"].clear()
    rec = dict(f=formula, b=bname, mode=mode, fails=[], interp=0)
    # 1. string_to_node, default arguments
    expr0 = expr1 = None
    try:
        expr0, nodes0, c0 = _silent(g.string_to_node, formula, basis)
        lab0 = nodes0.to_list(basis)
        rec["s2n"] = dict(ok=True, labels=[str(l) for l in lab0] if lab0 is not None else None, c=int(c0), ser=serialise(expr0),
                          count=int(nodes0.count_nodes(basis)))
    except Exception as e:
        rec["s2n"] = dict(ok=False, **_exd(e))
    # 2. evalf=True parse as the string API uses it
    try:
        expr1, nodes1, c1 = _silent(g.string_to_node, formula, basis, evalf=True)
        lab1 = nodes1.to_list(basis)
        rec["ev"] = dict(ok=True, labels=[str(l) for l in lab1], c=int(c1), ser=serialise(expr1))
    except Exception as e:
        rec["ev"] = dict(ok=False, **_exd(e))
    # 3. the string API
    for key, rf in (("F0", False), ("F1", True)):
        try:
            r = _silent(fs.fit_from_string, formula, basis, None, replace_floats=rf)
            rec[key] = dict(ok=True, labels=[str(l) for l in r[2]])
        except Exception as e:
            rec[key] = dict(ok=False, **_exd(e))
    for key, rf in (("A0", False), ("A1", True)):
        try:
            _ST["aif_labels"] = None
            r = _silent(fs.string_to_aifeyn, formula, basis, verbose=False, replace_floats=rf)
            rec[key] = dict(ok=True, labels=[str(l) for l in _ST["aif_labels"]], comp=int(r[1]))
        except Exception as e:
            if _ST["aif_labels"] is not None:          # the relabelling pass finished; tree_to_aifeyn raised afterwards
                rec[key] = dict(ok=True, labels=[str(l) for l in _ST["aif_labels"]], comp=None, post_exc=_exc(e))
            else:
                rec[key] = dict(ok=False, **_exd(e))
    rec["admissible"] = 0
    rec["harness_exc"] = []
    try:
        _selection(rec, g, formula, basis)
    except Exception as e:                              # harness code (the real calls inside are caught one by one)
        rec["harness_exc"].append(_hx("selection", e))
        rec.setdefault("cands", {}); rec.setdefault("sel", {}); rec.setdefault("trace", {}); rec.setdefault("sel_fails", [])
    if mode == "full":
        try:
            _oracle(rec, formula, basis, points, [expr0, expr1])
        except Exception as e:                          # what the oracle found before it broke stays in rec["fails"]
            rec["harness_exc"].append(_hx("oracle", e))
    rec["lines"] = sorted(_ST.get("lines", ()))
    return rec


# --------------------------------------------------------------------------------------------------------------
# the choice among the four parse variants (string_to_node): candidates, configurations, oracle on the real code
# --------------------------------------------------------------------------------------------------------------

# string_to_node tries every combination of string_to_expr's two flags ("four parse variants"); the oracle below is
# insensitive to their order, the correspondence uses the order regenerated from the source (extractors/tolist.variants)
DOC_COMBOS = [(False, True), (False, False), (True, True), (True, False)]
ALLOW_EVAL_VARIANT = (False, True)          # docstring: "allow_eval: whether to run the (kernS=False and evaluate=True) option"
# (evalf, check_ops, allow_eval): (F,F,T) and (T,F,T) are the `s2n` / `ev` calls made above
SELECT_CONFIGS = [(False, False, True), (True, False, True), (False, True, True), (True, True, True), (False, False, False), (True, True, False)]
# sympy prints these number constants by a name check_operators' sympy_numerics list contains (lower-cased)
_NUMBER_NAMES = ("pi", "nan", "eulergamma", "catalan", "goldenratio", "tribonacciconstant")


def _cfg_key(cfg):
    return "evalf=%d,check_ops=%d,allow_eval=%d" % tuple(int(b) for b in cfg)


def _is_number_label(l):
    """a numeric literal as sympy prints numbers; an integer (or quotient of integers) beyond the range of a double is not a
    number for ESR (generator.is_float: float(10**400) raises OverflowError) — the oracle follows that reading"""
    if ot.number_value(l) is None or not re.match(r"[-+]?[0-9.]", l):
        return False
    m = re.match(r"[-+]?(\d+)(?:/[-+]?(\d+))?\Z", l)
    if m:
        try:
            float(int(m.group(1)) / int(m.group(2))) if m.group(2) else float(int(m.group(1)))
        except (OverflowError, ZeroDivisionError, ValueError):
            return False
    return True


def _label_in_basis(l, basis, flat):
    """independent reading of 'the operator / leaf is in the basis' (numbers and parameters count as 'a', x<k> as 'x')"""
    if ot.api_name(l) in flat:
        return True
    if (_is_number_label(l) or l.lower() in _NUMBER_NAMES or re.match(r"a\d+\Z", l)):
        return "a" in flat
    if re.match(r"x\d+\Z", l):
        return "x" in flat
    return False


def _in_basis(labels, basis):
    flat = set(x for c in basis for x in c)
    return all(_label_in_basis(l, basis, flat) for l in labels)


def _candidates(g, formula, basis, evalf):
    """the four candidate trees exactly as string_to_node builds them, by flag combination"""
    out = {}
    for kern, ev in DOC_COMBOS:
        d = dict(parsed=False, ok=False)
        try:
            e = g.string_to_expr(formula, kern=kern, evaluate=ev, locs=None)
            if evalf:
                e = e.evalf()
            d["parsed"] = True
            try:
                d["ser"] = serialise(e)
            except Exception as ex:                     # not a sympy tree (e.g. a tuple): cannot be sent to the model
                d["ser"] = None
                d["ser_exc"] = _exc(ex)
            n = g.DecoratedNode(e, basis)
            c = n.count_nodes(basis)
            labels = n.to_list(basis)
            d.update(ok=True, count=int(c), labels=[str(l) for l in labels], ck=bool(g.check_operators(n, basis)))
        except Exception as ex:
            d["exc"] = _exc(ex)
        out[(kern, ev)] = d
    return out


def _selection(rec, g, formula, basis):
    s2n = _ST["orig_s2n"]
    rec["cands"] = {}
    for evalf in (False, True):
        try:
            rec["cands"][evalf] = _candidates(g, formula, basis, evalf)
        except Exception as ex:
            rec["cands"][evalf] = None
            rec["cands_exc"] = _exc(ex)
    rec["sel"] = {}
    rec["trace"] = {}
    for cfg in SELECT_CONFIGS:
        evalf, ck, ae = cfg
        _ST["s2e_trace"] = []
        try:
            e, n, c = _silent(s2n, formula, basis, evalf=evalf, allow_eval=ae, check_ops=ck)
            labels = n.to_list(basis)
            try:
                ser = serialise(e)
            except Exception:
                ser = None
            rec["sel"][cfg] = dict(ok=True, labels=[str(l) for l in labels] if labels is not None else None, c=int(c), ser=ser)
        except Exception as ex:
            rec["sel"][cfg] = dict(ok=False, **_exd(ex))
        rec["trace"][cfg] = _ST["s2e_trace"]
        _ST["s2e_trace"] = None
    rec["sel_fails"] = _selection_oracle(rec, formula, basis)


def _selection_oracle(rec, formula, basis):
    """string_to_node's documented choice, checked on the real outputs without the model: it returns iff some permitted
    variant converts; the complexity is the number of returned labels and the MINIMUM node count over the permitted variants
    that convert (with check_ops, over those whose labels are all in the basis, if any — and then the returned labels are
    all in the basis).  Independent of the order of the variants."""
    fails = []
    for cfg in SELECT_CONFIGS:
        evalf, ck, ae = cfg
        cands = rec["cands"].get(evalf)
        r = rec["sel"][cfg]
        if cands is None:
            continue
        P = [d for combo, d in cands.items() if d["ok"] and (ae or combo != ALLOW_EVAL_VARIANT)]
        k = _cfg_key(cfg)
        if not r["ok"]:
            if P:
                fails.append(("S2N-SELECT:raises:%s[%s]" % (r["exc"], k),
                              "string_to_node(%r, %s) raised %s although %d parse variant(s) convert (node counts %r)" % (
                                  formula, k, r["exc"], len(P), [d["count"] for d in P])))
            continue
        if r["labels"] is None:
            continue
        if not P:
            fails.append(("S2N-SELECT:returns-without-candidate[%s]" % k, "string_to_node(%r, %s) returned %r although no permitted parse variant converts" % (formula, k, r["labels"])))
            continue
        if r["c"] != len(r["labels"]):
            fails.append(("S2N-SELECT:complexity[%s]" % k, "string_to_node(%r, %s) reports complexity %d but the returned node has %d labels %r" % (
                formula, k, r["c"], len(r["labels"]), r["labels"])))
        Q = [d for d in P if _in_basis(d["labels"], basis)] if ck else []
        pool = Q or P
        lo = min(d["count"] for d in pool)
        what = "in-basis " if Q else ""
        if r["c"] > lo:
            best = [d["labels"] for d in pool if d["count"] == lo][0]
            fails.append(("S2N-SELECT:not-minimal[%s]" % k, "string_to_node(%r, %s) returned %r (complexity %d) but the %sparse variant %r has only %d nodes" % (
                formula, k, r["labels"], r["c"], what, best, lo)))
        elif r["c"] < lo:
            fails.append(("S2N-SELECT:below-every-permitted-variant[%s]" % k, "string_to_node(%r, %s) returned %r (complexity %d) but every permitted %sparse variant has at least %d nodes" % (
                formula, k, r["labels"], r["c"], what, lo)))
        if Q and not _in_basis(r["labels"], basis):
            fails.append(("S2N-SELECT:out-of-basis[%s]" % k, "string_to_node(%r, %s) returned %r which names operators outside the basis although the variant %r is in the basis" % (
                formula, k, r["labels"], Q[0]["labels"])))
    return fails


def _oracle(rec, formula, basis, points, chosen):
    fails = rec["fails"]
    try:
        pts = formula_points(formula, points, chosen)
    except Exception as e:
        rec["formula_error"] = _exc(e)
        pts = None
    if pts is None:
        rec["mode"] = "corr"                      # the formula itself is not evaluable (foreign symbol, sympify error): out of scope
        return
    rec["admissible"] = len(pts)
    # --- string_to_node(...).to_list(...)
    s = rec["s2n"]
    if not s["ok"]:
        fails.append(("S2N:raises:%s" % s["exc"], "string_to_node(%r) raised %s" % (formula, _rs(s))))
    elif s["labels"] is None:
        fails.append(("S2N:returns-none", "to_list returned None for %r" % formula))
    else:
        _check_labels("S2N", s["labels"], basis, pts, fails, rename=True)
        if s["c"] != len(s["labels"]) or s["count"] != len(s["labels"]):
            fails.append(("S2N:complexity", "string_to_node(%r) reports complexity %d (count_nodes %d) but returns %d labels" % (formula, s["c"], s["count"], len(s["labels"]))))
    # --- fit_from_string / string_to_aifeyn without replacement
    raw = rec["ev"]["labels"] if rec["ev"]["ok"] else None

    def why(excname):
        if raw is not None:
            sig = ot.diagnose([ot.api_name(l) for l in raw], basis)
            if sig:
                return ":" + sig
        return ""
    for api, key in (("FIT", "F0"), ("AIF", "A0")):
        r = rec[key]
        if not r["ok"]:
            fails.append(("%s:raises:%s%s" % (api, r["exc"], why(r["exc"])),
                          "%s(%r) raised %s; to_list gave %r" % ("fit_from_string" if api == "FIT" else "string_to_aifeyn", formula, _rs(r), raw)))
            continue
        _check_labels(api, r["labels"], basis, pts, fails, rename=False)
        if r.get("post_exc"):
            fails.append(("%s:raises:%s%s" % (api, r["post_exc"], why(r["post_exc"])),
                          "string_to_aifeyn(%r) raised %s in tree_to_aifeyn for labels %r" % (formula, r["post_exc"], r["labels"])))
        elif api == "AIF" and r["comp"] != len(r["labels"]):
            fails.append(("AIF:complexity", "string_to_aifeyn(%r) reports complexity %d for %d labels" % (formula, r["comp"], len(r["labels"]))))
    # --- with replacement
    for api, key, base in (("FIT-RF", "F1", "F0"), ("AIF-RF", "A1", "A0")):
        r, r0 = rec[key], rec[base]
        if not r0["ok"]:
            continue                                   # already reported
        l0 = r0["labels"]
        if not r["ok"]:
            fails.append(("%s:raises:%s" % (api, r["exc"]),
                          "replace_floats=True on %r raised %s (labels without replacement: %r)" % (formula, _rs(r), l0)))
            continue
        l1 = r["labels"]
        try:
            par = ot.parents(l0, basis)
        except ot.Malformed:
            continue
        if len(l1) != len(l0):
            fails.append(("%s:length" % api, "replace_floats changed the number of labels: %r vs %r" % (l1, l0)))
            continue
        k = 0
        assign = {}
        bad = None
        for j, (a, b) in enumerate(zip(l0, l1)):
            isnum = ot.number_value(a) is not None
            ispar = re.match(r"a\d+\Z", a) is not None
            if isnum and par[j] == "pow":
                if b != a:
                    bad = ("%s:exponent-replaced" % api, "the number %r, a direct child of pow, became %r in %r (from %r)" % (a, b, l1, l0))
                continue
            if isnum or ispar:
                if b != "a%d" % k:
                    bad = ("%s:numbering" % api, "position %d (%r) should become a%d but is %r: %r (from %r)" % (j, a, k, b, l1, l0))
                    break
                assign["a%d" % k] = a
                k += 1
                if isnum:
                    # deeper inside an exponent?  (interpretation, not alarmed on)
                    if any(l0[p] == "pow" and _is_in_second(l0, basis, p, j) for p in _ancestors(l0, basis, j)):
                        rec["interp"] += 1
            elif b != a:
                bad = ("%s:operator-changed" % api, "label %r at %d became %r under replace_floats" % (a, j, b))
                break
        if bad:
            fails.append(bad)
            continue

        def penv(env, assign=assign):
            e2 = {"x": env["x"]}
            for nk, old in assign.items():
                v = ot.number_value(old)
                if v is None and old not in env:
                    return None                        # a parameter the formula does not have: judged by parameter-invented
                e2[nk] = env[old] if v is None else v
            return e2
        _check_labels(api, l1, basis, pts, fails, rename=False, param_env=penv)
    if rec["admissible"] == 0:
        # none of the evaluation points has all power bases positive (typically a negative constant under a fractional
        # power: nowhere a real function): labels such as I, zoo, sinh, im are not held against the conversion
        kept = [f_ for f_ in fails if ":unknown-label:" not in f_[0]]
        rec["degenerate_dropped"] = len(fails) - len(kept)
        fails[:] = kept
    # without replacement no numeric constant may turn into a parameter: parameters of the result ⊆ parameters of the formula
    for api, key in (("FIT", "F0"), ("AIF", "A0")):
        r = rec[key]
        if r["ok"]:
            newp = [l for l in r["labels"] if re.match(r"a\d+\Z", l) and not re.search(r"\b%s\b" % l, formula)]
            if newp:
                fails.append(("%s:parameter-invented" % api, "labels %r contain %r which the formula %r does not" % (r["labels"], newp, formula)))


def _ancestors(labels, basis, j):
    """positions of the ancestors of j, nearest first"""
    t = ot.parse(labels, basis)
    path = []

    def walk(n, acc):
        if n[1] == j:
            path.extend(reversed(acc))
            return True
        for c in n[2:]:
            if walk(c, acc + [n[1]]):
                return True
        return False
    walk(t, [])
    return path


def _is_in_second(labels, basis, p, j):
    """is position j inside the SECOND operand (the exponent) of the binary node at p?"""
    t = ot.parse(labels, basis)

    def find(n):
        if n[1] == p:
            return n
        for c in n[2:]:
            r = find(c)
            if r:
                return r
        return None
    n = find(t)
    if n is None or len(n) < 4:
        return False

    def has(m):
        return m[1] == j or any(has(c) for c in m[2:])
    return has(n[3])



# --------------------------------------------------------------------------------------------------------------
# call-sequence histories of the string API in ONE process (every ordered pair of option settings on every formula)
# --------------------------------------------------------------------------------------------------------------

import strapi_hist as sh

# the option settings a history runs on each of its formulas: every ORDERED pair (the same setting twice included) occurs
# as two consecutive calls on that formula, on every seed (sh.euler_pairs)
HIST_KINDS = [dict(fn="fit", rf=False), dict(fn="fit", rf=True), dict(fn="aif", rf=False), dict(fn="aif", rf=True),
              dict(fn="s2n", evalf=False, check_ops=False, allow_eval=True), dict(fn="s2n", evalf=True, check_ops=False, allow_eval=True),
              dict(fn="s2n", evalf=True, check_ops=True, allow_eval=True), dict(fn="s2n", evalf=False, check_ops=False, allow_eval=False)]
# constants outside / inside exponents, gapped parameter names, nothing to replace (upstream's own example), a constant numerator
HIST_DESIGNED = ["a0 + 0.5*x", "a0*x**2.5 + 1.5", "a1*x + a3", "pow(x, 0.5)*a2 + 2", "a0 + a1*x**3", "2.5/(a1 + x)"]
HIST_FIELDS = {"fit": ["labels", "handed"], "aif": ["labels", "aifeyn", "comp"], "s2n": ["labels", "comp", "count", "expr"]}


def _kind_text(c):
    if c["fn"] == "s2n":
        return "string_to_node(%r, evalf=%s, check_ops=%s, allow_eval=%s).to_list()" % (c["formula"], c["evalf"], c["check_ops"], c["allow_eval"])
    return "%s(%r, replace_floats=%s)" % ("fit_from_string" if c["fn"] == "fit" else "string_to_aifeyn", c["formula"], c["rf"])


def _hist_plan(ctx, bases, deep):
    """-> [dict(name, bname, basis, formulas, calls=[call], kinds_seq per formula)]"""
    rng = ctx.rng
    nh = int(os.environ.get("C18_HIST", 12 if deep else 4))
    plans = []
    for h in range(nh):
        bname, basis = bases[h % len(bases)] if h else next(((n, b) for n, b in bases if n == "core_maths"), bases[0])
        forms = list(HIST_DESIGNED)
        tries = 0
        while len(forms) < len(HIST_DESIGNED) + 3 and tries < 60:
            tries += 1
            f = gen_formula(rng, basis, rng.choice([1, 2, 2]), False)
            if len(f) <= 40 and f not in forms and re.search(r"\bx\b", f) and re.search(r"\d", f):
                forms.append(f)
        seqs = [sh.euler_pairs(len(HIST_KINDS), rng) for _ in forms]
        assert all(sh.covers_all_pairs(q, len(HIST_KINDS)) for q in seqs)
        order = sh.interleave(seqs, rng)
        calls = [dict(HIST_KINDS[k], formula=forms[fi], basis=basis) for fi, k in order]
        plans.append(dict(name="h%d" % h, bname=bname, basis=basis, formulas=forms, calls=calls, order=order))
    return plans


def _hist_specs(plans):
    specs = []
    for pl in plans:
        specs.append((pl["name"], dict(mode="labels", fork=False, tasks=[pl["calls"]])))
        distinct = [dict(HIST_KINDS[k], formula=f, basis=pl["basis"]) for f in pl["formulas"] for k in range(len(HIST_KINDS))]
        pl["fresh_calls"] = distinct
        specs.append((pl["name"] + "_fresh", dict(mode="labels", fork=True, tasks=[[c] for c in distinct], timeout=60)))
    return specs


def _hist_start(ctx, bases, deep):
    """plan the histories (ctx.rng) and start their workers; collected by _hist_finish after the formula jobs"""
    plans = _hist_plan(ctx, bases, deep)
    tmp = os.path.join(ctx.tmp, "c18hist")
    live = []
    try:
        for name, spec in _hist_specs(plans):
            live.append(sh.launch(ctx.env(), tmp, name, spec))
    except Exception as e:
        ctx.disagree("harness:history", "could not start the history workers: %r" % (e,))
    return plans, live


def _hist_diff(c, got, want):
    """-> None or (field, text)"""
    if not want.get("ok"):
        if got.get("ok") or got.get("exc") != want.get("exc"):
            return "outcome", "returns %s in the history but raises %s as the first call of a fresh process" % (
                {k: got.get(k) for k in HIST_FIELDS[c["fn"]]} if got.get("ok") else "raises " + _rs(got), _rs(want))
        return None
    if not got.get("ok"):
        return "raises:%s" % got.get("exc"), "raises %s in the history but returns %r as the first call of a fresh process" % (_rs(got), {k: want.get(k) for k in HIST_FIELDS[c["fn"]]})
    for k in HIST_FIELDS[c["fn"]]:
        a, b = got.get(k), want.get(k)
        same = (a == b) if not isinstance(b, float) else (a is not None and (a == b or abs(a - b) <= 1e-12 * max(1.0, abs(b))))
        if not same:
            return k, "%s = %r in the history, %r as the first call of a fresh process" % (k, a, b)
    return None


def _hist_judge_one(pl, hres, fres):
    """-> [(key, what, replay calls)] ; the first differing call per (formula, setting)"""
    fresh = {}
    for c, r in zip(pl["fresh_calls"], fres):
        fresh[json.dumps(c, sort_keys=True)] = r[0]
    out = []
    seen = set()
    for i, (c, r) in enumerate(zip(pl["calls"], hres)):
        want = fresh[json.dumps(c, sort_keys=True)]
        d = _hist_diff(c, r, want)
        if d is None:
            continue
        sig = (c["formula"], json.dumps({k: v for k, v in c.items() if k not in ("formula", "basis")}, sort_keys=True))
        if sig in seen:
            continue
        seen.add(sig)
        prior = [q for q in pl["calls"][:i] if q["formula"] == c["formula"]]
        out.append(dict(index=i, call=c, field=d[0], text=d[1], prior=prior, got=r, want=want))
    return out


def _hist_shrink(ctx, pl, bad):
    """the shortest reproducing call sequence: (one earlier call on the same formula, the failing call) if some such pair
    reproduces the difference in a fresh process, else the whole prefix of the history"""
    cands = []
    for b in bad:
        seen = []
        for q in reversed(b["prior"]):
            if q not in seen:
                seen.append(q)
        b["pairs"] = seen[:len(HIST_KINDS) + 2]
        cands += [[q, b["call"]] for q in b["pairs"]]
    if not cands:
        return
    try:
        res, err = sh.collect(sh.launch(ctx.env(), os.path.join(ctx.tmp, "c18hist"), pl["name"] + "_shrink",
                                        dict(mode="labels", fork=True, tasks=cands, timeout=60)), 600)
    except Exception as e:
        res, err = None, repr(e)
    if res is None:
        return
    k = 0
    for b in bad:
        for q in b["pairs"]:
            r = res[k]
            k += 1
            if "replay_calls" not in b and _hist_diff(b["call"], r[1], b["want"]) is not None:
                b["replay_calls"] = [q, b["call"]]


def _hist_finish(ctx, plans, live, timeout):
    stat = dict(histories=len(plans), calls=0, fresh_references=0, settings=len(HIST_KINDS), ordered_pairs_per_formula=len(HIST_KINDS) ** 2,
                formulas=0, differences=0, raising_calls=0, wall_s=0.0, worker_errors=[])
    results = {}
    for h in live:
        results[h["name"]] = sh.collect(h, timeout)
        stat["wall_s"] = max(stat["wall_s"], h.get("wall_s", 0.0))
    for pl in plans:
        hres, e1 = results.get(pl["name"], (None, "not started"))
        fres, e2 = results.get(pl["name"] + "_fresh", (None, "not started"))
        if e1 or e2 or hres is None or fres is None:
            stat["worker_errors"].append(str(e1 or e2)[:300])
            ctx.disagree("harness:history", "history %s (basis %s): %s" % (pl["name"], pl["bname"], str(e1 or e2)[:400]))
            continue
        try:
            hres = hres[0]
            stat["calls"] += len(hres)
            stat["fresh_references"] += len(fres)
            stat["formulas"] += len(pl["formulas"])
            stat["raising_calls"] += sum(1 for r in hres if not r.get("ok"))
            bad = _hist_judge_one(pl, hres, fres)
            if bad:
                _hist_shrink(ctx, pl, bad)
            for f in pl["formulas"]:
                ctx.case(("history", pl["bname"], f), nontrivial=True, n=len(HIST_KINDS) ** 2 + 1)
            for b in bad:
                stat["differences"] += 1
                c = b["call"]
                calls = b.get("replay_calls") or (b["prior"] + [c])
                ctx.fail("HIST:%s%s:%s" % (c["fn"], ":rf=%d" % int(c["rf"]) if "rf" in c else "", b["field"]),
                         "%s: %s [basis %s; call %d of a history in one process; earlier calls on this formula: %d; reproducing sequence: %s]" % (
                             _kind_text(c), b["text"], pl["bname"], b["index"], len(b["prior"]), " ; ".join(_kind_text(q) for q in calls[-3:])),
                         dict(kind="history", mode="labels", basis_name=pl["bname"], calls=calls))
            # what the property says about one call, on the calls of the history themselves (no fresh process involved):
            # without replacement no parameter the formula does not name
            for c, r in zip(pl["calls"], hres):
                if r.get("ok") and c["fn"] in ("fit", "aif") and not c["rf"] and r.get("labels"):
                    newp = [l for l in r["labels"] if re.match(r"a\d+\Z", l) and not re.search(r"\b%s\b" % l, c["formula"])]
                    if newp and not any(b["call"] == c for b in bad):
                        ctx.fail("HIST:%s:parameter-invented" % c["fn"], "%s in a history returned labels %r with %r which the formula does not name" % (_kind_text(c), r["labels"], newp),
                                 dict(kind="history", mode="labels", basis_name=pl["bname"], calls=pl["calls"][:pl["calls"].index(c) + 1]))
            if pl is plans[0]:
                ctx.sample(dict(kind="history", basis=pl["bname"], formulas=pl["formulas"], first_calls=[_kind_text(c) for c in pl["calls"][:6]],
                                first_results=[r.get("labels", r.get("exc")) for r in hres[:6]]))
        except Exception as e:
            ctx.disagree("harness:history", "judging history %s: %r" % (pl["name"], _exd(e)))
    ctx.extra["call_histories"] = stat
    return stat

# --------------------------------------------------------------------------------------------------------------
# run
# --------------------------------------------------------------------------------------------------------------

def _points(rng):
    pts = []
    for k in range(6):
        env = {"x": rng.uniform(0.4, 2.5)}
        for p in PARAMS:
            v = rng.uniform(0.3, 2.5)
            if k >= 3 and rng.random() < 0.5:
                v = -v
            env[p] = v
        pts.append(env)
    return pts


def _jobs(ctx, n, bases):
    rng = ctx.rng
    pts = _points(rng)
    jobs = []
    seen = set()
    tries = 0
    while len(jobs) < n and tries < 20 * n:
        tries += 1
        r = rng.random()
        if r < 0.86:
            bname, basis = bases[len(jobs) % len(bases)]
            mode, exotic = "full", False
        elif r < 0.93:
            bname, basis = bases[rng.randrange(len(bases))]
            mode, exotic = "corr", True
        else:
            bname, basis = EXTRA_BASES[rng.randrange(len(EXTRA_BASES))]
            mode, exotic = "corr", rng.random() < 0.3
        f = gen_formula(rng, basis, rng.choice([1, 2, 2, 3, 3, 4]), exotic)
        if len(f) > 90 or (bname, f) in seen:
            continue
        if not re.search(r"\bx\b", f) and rng.random() < 0.97:
            continue                                   # constant formulas: only a few
        seen.add((bname, f))
        jobs.append((f, bname, basis, pts, mode))
    # strings on which some or all parse variants raise (string_to_node raises iff all do): correspondence + selection oracle only
    for k, f in enumerate(RAISING):
        for bname, basis in (bases[k % len(bases)], bases[(k + 3) % len(bases)]):
            if (bname, f) not in seen:
                seen.add((bname, f))
                jobs.append((f, bname, basis, pts, "corr"))
    return jobs, pts


def _run_jobs(jobs, nproc):
    """-> records, one per job.  `process` returns every exception as data; should the pool itself break (a worker killed,
    a record that cannot be pickled) the jobs are re-run one by one in this process, and a job that still cannot be
    run gets a harness-exc record."""
    if nproc > 1 and len(jobs) >= 40:
        import multiprocessing as mp
        try:
            with mp.get_context("fork").Pool(nproc) as pool:
                return pool.map(process, jobs, chunksize=max(1, len(jobs) // (nproc * 8)))
        except Exception as e:
            _ST["pool_exc"] = _hx("pool", e)
    out = []
    for j in jobs:
        try:
            out.append(process(j))
        except Exception as e:
            rec = _blank(j, "harness-exc", "harness-exception")
            rec["harness_exc"].append(_hx("process", e))
            out.append(rec)
    return out


def _anchored_lines(stage):
    """executable line numbers of the anchored ranges"""
    out = {}
    for rel, ranges in ANCHORS.items():
        src = open(os.path.join(stage, rel)).read()
        code = compile(src, rel, "exec")
        lines = set()

        def walk(c):
            for _, _, ln in c.co_lines():
                if ln is not None:
                    lines.add(ln)
            for k in c.co_consts:
                if hasattr(k, "co_lines"):
                    walk(k)
        walk(code)
        out[rel] = sorted(l for l in lines if any(a <= l <= b for a, b in ranges))
    return out


def run(ctx):
    drift = extract.drifted(ctx.proof.get("extract", {}), MODELLED)
    deep = (not ctx.quick) or bool(drift)
    ctx.extra["source_drift"] = drift
    from extractors import shape as shx
    bases = [(n, b) for n, b, _ in shx.bases(ctx.stage)]
    # import the staged ESR before forking
    from esr.generation import generator as g      # noqa
    import esr.fitting.fit_single as fs             # noqa
    _tables(ctx)
    n = 30000 if deep else 1500
    n = int(os.environ.get("C18_N", n))
    jobs, pts = _jobs(ctx, n, bases)
    nproc = int(os.environ.get("C18_PROCS", min(12, os.cpu_count() or 1)))
    t0 = time.time()
    hplans, hlive = [], []
    try:
        hplans, hlive = _hist_start(ctx, bases, deep)            # own fresh interpreters; collected below
    except Exception as e:
        ctx.disagree("harness:history", "planning the call histories: %r" % (_exd(e),))
    try:
        recs = _run_jobs(jobs, nproc)
    finally:
        _uninstall()
    ctx.extra["real_code_wall_s"] = round(time.time() - t0, 1)
    # the histories are judged first: their replays (call sequences) head the list of reported failures
    hstat = dict(calls=0, differences=0, worker_errors=["not run"])
    try:
        hstat = _hist_finish(ctx, hplans, hlive, 3600 if deep else 900)
    except Exception as e:
        ctx.disagree("harness:history", "collecting the call histories: %r" % (_exd(e),))
    _compare(ctx, jobs, recs, pts)
    ctx.extra["corr_obligations"] = ctx.extra.get("corr_obligations", 6) + 1
    ctx.extra["corr_discharged"] = ctx.extra.get("corr_discharged", 0) + int(hstat.get("calls", 0) > 0 and not hstat.get("worker_errors") and not hstat.get("differences"))


def _tables(ctx):
    """order / flags of the parse variants and the call sites' flags as regenerated from the staged source (the model reads
    the same tables from Generated/ToList.lean).  If the translator cannot read the source and the property falls back on the
    committed table (FALLBACK, common.prove), the harness drives the correspondence with the tables of THAT file — the ones the
    executable model was built from: the comparison with the real run (string_to_expr calls traced in order, the returned
    tree under six flag settings, the string API end to end) is then the whole tie.  Without the fallback the documented
    order is used and the correspondence is reported broken."""
    from extractors import tolist as tlx
    try:
        variants, defaults = tlx.s2n_skeleton(ctx.stage)
        sites = tlx.call_sites(ctx.stage, defaults)
        _ST["tables_ok"] = True
        ctx.extra["select_tables_from"] = "regenerated from the staged source"
    except Exception as e:
        variants = sites = None
        if "ToList" in ((getattr(ctx, "proof", None) or {}).get("fallback") or {}):
            try:
                variants, sites = tlx.committed_tables(os.path.join(common.LEAN, "ESRVerif", "Generated", "ToList.lean"))
                _ST["tables_ok"] = True
                ctx.extra["select_tables_from"] = "committed table (translator fallback: %s)" % (str(e)[:200],)
            except Exception as e2:
                e = e2
                variants = sites = None
        if variants is None:
            variants = [(k, e_, (k, e_) == ALLOW_EVAL_VARIANT, 0) for k, e_ in DOC_COMBOS]
            sites = [("fit_from_string", True, True, False, 0), ("string_to_aifeyn", True, True, False, 0)]
            _ST["tables_ok"] = False
            ctx.disagree("corr:string_to_node-select", "the skeleton of string_to_node / its call sites could not be read from the source (%s): "
                         "the model still has the last recognised variant table" % (str(e)[:300],))
    _ST["variants"] = [(k, e, g_) for k, e, g_, _ in variants]
    _ST["call_sites"] = {name: (ef, ck, ae) for name, ef, ae, ck, _ in sites}
    ctx.extra["parse_variants"] = [dict(index=i, kern=k, evaluate=e, behind_allow_eval=g_) for i, (k, e, g_) in enumerate(_ST["variants"])]
    ctx.extra["call_sites"] = {n: dict(evalf=v[0], check_ops=v[1], allow_eval=v[2]) for n, v in _ST["call_sites"].items()}


def _cand_tokens(cands, variants):
    """`CAND | CAND | …` in the variants' index order; None if some tree cannot be sent"""
    parts = []
    for k, e, g_ in variants:
        d = cands[(k, e)]
        if not d["parsed"]:
            parts.append("none")
        elif d.get("ser") is None:
            return None
        else:
            parts.append(" ".join(d["ser"]))
    return " | ".join(parts)


def _select_ops(jobs, recs):
    """op lines for the model's string_to_node / string API and what the real code did"""
    variants = _ST["variants"]
    ops, want = [], []
    skipped = 0
    for job, rec in zip(jobs, recs):
        f, bname, basis, _, _ = job
        if rec["mode"] == "timeout":
            continue
        bs = "%s %s %s" % (_bs(basis[0]), _bs(basis[1]), _bs(basis[2]))
        toks = {}
        for evalf in (False, True):
            cands = rec["cands"].get(evalf)
            toks[evalf] = None
            if cands is None:
                continue
            if not all((not d["ok"]) or _sendable(d["labels"]) for d in cands.values()):
                continue
            toks[evalf] = _cand_tokens(cands, variants)
        for cfg in SELECT_CONFIGS:
            evalf, ck, ae = cfg
            r = rec["sel"].get(cfg)
            if toks[evalf] is None or r is None or (r["ok"] and (r["labels"] is None or r["ser"] is None or not _sendable(r["labels"]))):
                skipped += 1
                continue
            cands = rec["cands"][evalf]
            cs, ib = [], ""
            for k, e, g_ in variants:
                d = cands[(k, e)]
                run_ = ae or not g_
                cs.append(str(d["count"]) if (d["ok"] and run_) else "n")
                ib += "1" if (ck and run_ and d["ok"] and d["ck"]) else "0"
            ops.append("tlselect %s %d %d %s" % (bs, int(ae), int(ck), toks[evalf]))
            want.append(dict(kind="select", f=f, b=bname, cfg=cfg, r=r, counts=",".join(cs), ib=ib, cands=[cands[(k, e)] for k, e, g_ in variants],
                             trace=rec["trace"].get(cfg), expect_trace=[(k, e) for k, e, g_ in variants if ae or not g_]))
        for api, fn, keys in (("FIT", "fit_from_string", ("F0", "F1")), ("AIF", "string_to_aifeyn", ("A0", "A1"))):
            site = _ST["call_sites"].get(fn)
            if site is None or toks[site[0]] is None:
                continue
            for rf, key in enumerate(keys):
                r = rec[key]
                if r["ok"] and not _sendable(r["labels"]):
                    continue
                ops.append("tlapi %s %d %s %s" % (fn, rf, bs, toks[site[0]]))
                want.append(dict(kind="api", f=f, b=bname, key=key, line="ok " + " ".join(r["labels"]) if r["ok"] else "err"))
    return ops, want, skipped


_BOUND = 2 ** 1024 - 2 ** 970          # float(n) raises OverflowError from here on
IS_FLOAT_PROBES = ["0", "7", "-3", "+2", "1/2", "-1/3", "1/0", "2.50000000000000", "1.0e-5", "1e400", "1.0e+400", "-1.5E3", ".5", "5.", "1e", "e5", "--1",
                   "a0", "x", "pi", "E", "nan", "inf", "oo", "zoo", "I", "None", "1/2/3", "0x10", "1_0",
                   str(_BOUND - 1), str(_BOUND), "-" + str(_BOUND), str(2 ** 1024 - 2 ** 971), "1" + "0" * 400, "1" + "0" * 400 + ".0",
                   "1" + "0" * 400 + "/3", "1" + "0" * 400 + "/1" + "0" * 200, "%d/7" % (7 * _BOUND), "%d/7" % (7 * _BOUND - 1), "3/" + "1" + "0" * 400]


def _compare_is_float(ctx):
    """generator.is_float (Python eval) against the model on literal shapes, incl. the OverflowError of float(<int>)"""
    from esr.generation import generator as g
    probes = [p_ for p_ in IS_FLOAT_PROBES if p_ and not re.search(r"\s", p_)]
    out = _model(ctx, ["tlisfloat " + p_ for p_ in probes])
    bad = 0
    for p_, m in zip(probes, out):
        real = "1" if _silent(g.is_float, p_) else "0"
        if p_ in ("0x10", "1_0", "--1", "1/2/3"):
            continue                                   # Python expression forms sympy never prints for a number: not modelled
        if m != real:
            bad += 1
            ctx.disagree("corr:is_float", "is_float(%r): code=%s model=%s" % (p_[:60] + ("…(%d chars)" % len(p_) if len(p_) > 60 else ""), real, m))
    ctx.extra["is_float_probes"] = dict(ops=len(probes), mismatches=bad)
    return bad


def _compare_select(ctx, jobs, recs):
    ops, want, skipped = _select_ops(jobs, recs)
    out = _model(ctx, ops)
    n = dict(select=0, api=0)
    bad = dict(select=0, api=0)
    chosen = {}
    ties = masked = 0

    def report(kind, msg):
        bad[kind] += 1
        if bad[kind] <= 4:
            ctx.disagree("corr:string_to_node-select", msg)
    for o, w, m in zip(ops, want, out):
        n[w["kind"]] += 1
        if w["kind"] == "api":
            if m != w["line"]:
                report("api", "formula %r basis %s: %s via the model of string_to_node+relabel: code=%s model=%s op=%s" % (w["f"], w["b"], w["key"], w["line"][:200], m[:200], o[:300]))
            continue
        r, cfg = w["r"], _cfg_key(w["cfg"])
        head = "formula %r basis %s [%s]: " % (w["f"], w["b"], cfg)
        if w["trace"] != w["expect_trace"]:
            report("select", head + "string_to_node called string_to_expr with (kern, evaluate) = %r, the regenerated variant table says %r" % (w["trace"], w["expect_trace"]))
            continue
        t = m.split(" ")
        if t[0] not in ("ok", "err") or (t[0] == "ok" and len(t) < 5) or (t[0] == "err" and len(t) != 3):
            report("select", head + "model answered %r op=%s" % (m[:200], o[:300]))
            continue
        mc, mib = (t[3], t[4]) if t[0] == "ok" else (t[1], t[2])
        if mc != w["counts"] or mib != w["ib"]:
            report("select", head + "per-variant node counts / check_operators: code c=%s all_in_basis=%s model c=%s all_in_basis=%s (variant labels %r)" % (
                w["counts"], w["ib"], mc, mib, [d.get("labels", d.get("exc")) for d in w["cands"]]))
            continue
        if t[0] == "err" or not r["ok"]:
            if (t[0] == "err") != (not r["ok"]):
                report("select", head + "code %s, model %s" % ("returned %r" % r["labels"] if r["ok"] else "raised " + r["exc"], m[:200]))
            continue
        idx, comp, labels = int(t[1]), int(t[2]), t[5:]
        chosen[idx] = chosen.get(idx, 0) + 1
        vals = [x for x in w["counts"].split(",") if x != "n"]
        ties += int(vals.count(str(comp)) > 1)
        masked += int("1" in w["ib"] and "0" in w["ib"])
        if comp != r["c"] or labels != r["labels"] or w["cands"][idx].get("ser") != r["ser"]:
            report("select", head + "code returned %r (complexity %d), model chose variant %d: %r (complexity %d); counts %s all_in_basis %s" % (
                r["labels"], r["c"], idx, labels, comp, w["counts"], w["ib"]))
    ctx.extra.setdefault("correspondence", {})
    ctx.extra["select_correspondence"] = dict(string_to_node_ops=n["select"], string_to_node_mismatches=bad["select"], api_ops=n["api"], api_mismatches=bad["api"],
                                             not_sendable=skipped, chosen_index_histogram={str(k): v for k, v in sorted(chosen.items())},
                                             calls_with_a_tie_at_the_minimum=ties, calls_where_check_ops_masked_a_variant=masked,
                                             configurations=[_cfg_key(c) for c in SELECT_CONFIGS])
    return n, bad


def _model(ctx, lines):
    """the executable model; if it cannot be built/run (e.g. the extractor failed closed) the correspondence is broken,
    but the oracle on the real code must still run"""
    if not lines:
        return []
    try:
        return common.model(lines)
    except Exception as e:
        ctx.disagree("corr:model-unavailable", repr(e)[:300])
        return ["model-unavailable"] * len(lines)


def _compare(ctx, jobs, recs, pts):
    ops, want, what = [], [], []
    skipped = 0
    for job, rec in zip(jobs, recs):
        f, bname, basis, _, _ = job
        bs = "%s %s %s" % (_bs(basis[0]), _bs(basis[1]), _bs(basis[2]))
        s = rec["s2n"]
        if s["ok"] and s["labels"] is not None and _sendable(s["labels"]):
            ops.append("tolist %s %s" % (bs, " ".join(s["ser"])))
            want.append("ok %d %s" % (s["c"], " ".join(s["labels"])))
            what.append(("to_list", f, bname))
        elif s["ok"]:
            skipped += 1
        e = rec["ev"]
        if e["ok"] and _sendable(e["labels"]):
            ops.append("tolist %s %s" % (bs, " ".join(e["ser"])))
            want.append("ok %d %s" % (e["c"], " ".join(e["labels"])))
            what.append(("to_list(evalf)", f, bname))
            for key, rf in (("F0", 0), ("F1", 1), ("A0", 0), ("A1", 1)):
                r = rec[key]
                ops.append("tlrelabel %d 20 %s %s" % (rf, bs, " ".join(e["labels"])))
                want.append("ok " + " ".join(r["labels"]) if r["ok"] else "err")
                what.append(("relabel:%s" % key, f, bname))
    # the Lean evaluator (ESR operator semantics of the theorems) against the independent oracle, on real label lists
    ev_ops, ev_want, ev_what = [], [], []
    env0 = pts[0]
    for job, rec in zip(jobs, recs):
        f, bname, basis, _, _ = job
        s2 = rec["s2n"]
        if not (s2["ok"] and s2["labels"] and _sendable(s2["labels"])):
            continue
        if any(ot.number_value(l) is not None and re.match(r"[-+]?[0-9.]", l) and not _is_number_label(l) for l in s2["labels"]):
            continue                                   # an integer beyond the double range: a number for the oracle, not for generator.is_float
        names = [ot.api_name(l) for l in s2["labels"]]
        try:
            tree = ot.parse(names, basis)
        except ot.Malformed:
            wv = "err"
        else:
            try:
                v = ot.evaluate(tree, env0)
                wv = v if math.isfinite(v) else "nonfinite"
            except ot.Malformed:
                continue
            except (ArithmeticError, ValueError, OverflowError):
                continue                               # Python raises where IEEE arithmetic continues (inf, nan): not comparable
        ev_ops.append("tleval %s %s %s %s %s" % (_bs(basis[0]), _bs(basis[1]), _bs(basis[2]),
                                                 " ".join(common.f2b(env0[n]) for n in ["x"] + PARAMS), " ".join(s2["labels"])))
        ev_want.append(wv)
        ev_what.append((f, bname))
    ev_out = _model(ctx, ev_ops)
    ev_bad = 0
    for o, w, m, wh in zip(ev_ops, ev_want, ev_out, ev_what):
        if m == "model-unavailable":
            okk = False
        elif m == "err":
            okk = (w == "err")
        else:
            mv = common.b2f(m)
            okk = (w == "nonfinite" and not math.isfinite(mv)) or (isinstance(w, float) and (_close(w, mv) or (abs(w) > 1e300 and not math.isfinite(mv))))
        if not okk:
            ev_bad += 1
            if ev_bad <= 3:
                ctx.disagree("corr:evalLabels", "formula %r basis %s: oracle=%r model=%s op=%s" % (wh[0], wh[1], w, m if m == "err" else common.b2f(m), o[:300]))
    out = _model(ctx, ops)
    bad = {}
    nops = {}
    for o, w, m, wh in zip(ops, want, out, what):
        kind = wh[0].split(":")[0]
        nops[kind] = nops.get(kind, 0) + 1
        if w != m:
            bad[kind] = bad.get(kind, 0) + 1
            if bad[kind] <= 3:
                ctx.disagree("corr:%s" % wh[0], "formula %r basis %s: code=%s model=%s op=%s" % (wh[1], wh[2], w[:300], m[:300], o[:400]))
    # the property itself, on the real code
    label_kinds = {}
    n_interp = 0
    n_noadm = 0
    lines = set()
    modes = {}
    per_basis = {}
    n_sel_fail = 0
    n_hx = 0
    if _ST.get("pool_exc"):
        hx = _ST.pop("pool_exc")
        ctx.disagree("harness:pool", "the worker pool broke (%s at %s: %s); the jobs were re-run one by one" % (hx["type"], hx["where"], hx["text"]))
    for job, rec in zip(jobs, recs):
        f, bname, basis, _, _ = job
        modes[rec["mode"]] = modes.get(rec["mode"], 0) + 1
        for hx in rec.get("harness_exc") or ():
            n_hx += 1
            ctx.disagree("harness:%s" % hx["phase"], "formula %r basis %s: harness code raised %s at %s: %s (the calls of the real code and what the oracle "
                         "had found before are still judged)" % (f, bname, hx["type"], hx["where"], hx["text"]))
        if rec["mode"] in ("timeout", "harness-exc"):
            continue
        per_basis[bname] = per_basis.get(bname, 0) + 1
        n_interp += rec.get("interp", 0)
        for ln in rec.get("lines", ()):
            lines.add(tuple(ln))
        labs = rec["s2n"].get("labels") or []
        for l in labs:
            if ot.number_value(l) is None and not re.match(r"(a\d+|x)\Z", l):
                label_kinds[l] = label_kinds.get(l, 0) + 1
        if rec["ev"]["ok"]:
            for l in rec["ev"]["labels"]:
                if l in ("Sqrt", "Cube", "Square"):
                    label_kinds[l + "(evalf)"] = label_kinds.get(l + "(evalf)", 0) + 1
        if rec["mode"] == "full":
            adm = rec.get("admissible", 0)
            if adm == 0:
                n_noadm += 1
            ctx.case((bname, f), nontrivial=(adm > 0 and len(labs) >= 3), n=max(1, adm) * 5)
            for key, whatmsg in rec["fails"]:
                ctx.fail(key, "%s [basis %s]" % (whatmsg, bname),
                         dict(formula=f, basis=basis, basis_name=bname, points=pts))
        else:
            ctx.case((bname, f), nontrivial=False)
        for key, whatmsg in rec.get("sel_fails", ()):
            n_sel_fail += 1
            ctx.fail(key, "%s [basis %s]" % (whatmsg, bname), dict(formula=f, basis=basis, basis_name=bname, points=pts))
    ctx.extra["selection_oracle"] = dict(calls=sum(len(r.get("sel", {})) for r in recs), failures=n_sel_fail,
                                         raised_all_variants=sum(1 for r in recs for v in r.get("sel", {}).values() if not v["ok"]))
    for job, rec in list(zip(jobs, recs))[:6]:
        ctx.sample(dict(formula=job[0], basis=job[1], to_list=rec["s2n"].get("labels"), fit_from_string=rec["F0"].get("labels", rec["F0"].get("exc")),
                        replace_floats=rec["F1"].get("labels", rec["F1"].get("exc")), admissible_points=rec.get("admissible")))
    kinds = sorted(nops)
    sel_n, sel_bad = _compare_select(ctx, jobs, recs)
    isf_bad = _compare_is_float(ctx)
    ctx.extra["corr_obligations"] = 6
    ctx.extra["corr_discharged"] = (int(not bad.get("to_list") and not bad.get("to_list(evalf)")) + int(not bad.get("relabel")) + int(ev_bad == 0)
                                    + int(_ST.get("tables_ok", False) and sel_n["select"] > 0 and sel_bad["select"] == 0)
                                    + int(_ST.get("tables_ok", False) and sel_n["api"] > 0 and sel_bad["api"] == 0) + int(isf_bad == 0))
    ctx.extra["correspondence"] = {k: dict(ops=nops[k], mismatches=bad.get(k, 0)) for k in kinds}
    ctx.extra["correspondence"]["string_to_node_select"] = dict(ops=sel_n["select"], mismatches=sel_bad["select"])
    ctx.extra["correspondence"]["string_api_from_four_candidates"] = dict(ops=sel_n["api"], mismatches=sel_bad["api"])
    ctx.extra["correspondence"]["evalLabels_vs_oracle"] = dict(ops=len(ev_ops), mismatches=ev_bad)
    ctx.extra["harness_exceptions_in_jobs"] = n_hx
    ctx.extra["formulas"] = len(jobs)
    ctx.extra["formulas_by_mode"] = modes
    ctx.extra["formulas_by_basis"] = per_basis
    ctx.extra["labels_not_sendable"] = skipped
    ctx.extra["operator_labels_seen"] = dict(sorted(label_kinds.items(), key=lambda kv: -kv[1])[:40])
    ctx.extra["no_admissible_point"] = n_noadm
    ctx.extra["unknown_label_without_admissible_point_not_counted"] = sum(r.get("degenerate_dropped", 0) for r in recs)
    ctx.extra["interpretation_deeper_exponent_replaced"] = n_interp
    ctx.extra["evaluation_points"] = [{k: round(v, 4) for k, v in p.items()} for p in pts]
    try:
        anch = _anchored_lines(ctx.stage)
        never = {rel: [l for l in ls if (rel, l) not in lines] for rel, ls in anch.items()}
        ctx.extra["anchored_lines_never_executed"] = never
        ctx.extra["anchored_lines_total"] = {rel: len(ls) for rel, ls in anch.items()}
    except Exception as e:
        ctx.extra["anchored_lines_never_executed"] = "unavailable: %r" % (e,)
    ctx.extra["exhaustive"] = False


def _replay_history(ctx, rp):
    calls = rp["calls"]
    distinct = []
    for c in calls:
        if c not in distinct:
            distinct.append(c)
    tmp = os.path.join(ctx.tmp, "c18hist")
    out = sh.run_many(ctx.env(), tmp, [("replay", dict(mode=rp.get("mode", "labels"), fork=False, tasks=[calls])),
                                       ("replay_fresh", dict(mode=rp.get("mode", "labels"), fork=True, tasks=[[c] for c in distinct], timeout=120))], 900)
    (hres, e1), (fres, e2) = out["replay"], out["replay_fresh"]
    if e1 or e2:
        print("replay: workers failed: %s" % (e1 or e2,))
        return False
    ok = True
    print("one process, in this order:")
    for c, r in zip(calls, hres[0]):
        want = fres[distinct.index(c)][0]
        d = _hist_diff(c, r, want)
        print("  %s -> %s" % (_kind_text(c), {k: r.get(k) for k in HIST_FIELDS[c["fn"]]} if r.get("ok") else "raises " + _rs(r)))
        if d is not None:
            ok = False
            print("     FAILS: %s" % d[1])
    return ok


def replay(ctx, data):
    rp = data["replay"]
    if rp.get("kind") == "history":
        return _replay_history(ctx, rp)
    _tables(ctx)
    rec = process((rp["formula"], rp.get("basis_name", "?"), rp["basis"], rp["points"], "full"))
    _uninstall()
    print("formula %r basis %s" % (rp["formula"], rp["basis"]))
    print("  string_to_node -> %s" % (rec["s2n"].get("labels", rec["s2n"].get("exc")),))
    print("  fit_from_string -> %s ; replace_floats -> %s" % (rec["F0"].get("labels", rec["F0"].get("exc")), rec["F1"].get("labels", rec["F1"].get("exc"))))
    for cfg, r in rec.get("sel", {}).items():
        cands = rec["cands"].get(cfg[0]) or {}
        print("  string_to_node[%s] -> %s ; variants (kern, evaluate): %s" % (_cfg_key(cfg), (r.get("labels"), r.get("c")) if r["ok"] else r["exc"],
              {k: (d.get("labels"), d.get("count")) if d["ok"] else d.get("exc") for k, d in cands.items()}))
    for k, w in rec["fails"] + rec.get("sel_fails", []):
        print("  FAILS %s: %s" % (k, w))
    return not rec["fails"] and not rec.get("sel_fails")
