"""C18 — converting a formula string to a tree preserves the function."""
import io, contextlib, math, os, re, sys, time
from fractions import Fraction
import common, extract
import oracle_tree as ot

LEAN_MODULE = "ESRVerif.Props.C18"
LEVEL = "other"
LEVEL_TEXT = ("Lean theorems over a hand model of DecoratedNode.__init__/to_list/count_nodes and of the relabelling pass of "
              "fit_from_string/string_to_aifeyn (special-case tables and string literals regenerated from the source): the label list "
              "is the prefix form of a tree (valid arity string) and evaluates, under ESR operator semantics, to the function of the sympy "
              "tree wherever all power bases are positive; complexity = number of labels; float replacement keeps every numeric label "
              "unless requested and never for direct children of pow, parameters numbered in order. PARTIAL: which sympy tree the four "
              "parse variants / evalf produce, and that str() of a sympy number denotes its value, are third-party behaviour (assumed, "
              "sampled); two to_list branches that emit a binary label with one operand are excluded by hypothesis and reported as a defect.")
TECHNIQUE = ("Lean 4 proof on a hand model + regenerated tables; model-code correspondence on grammar-generated formulas fed the serialised "
             "sympy tree the real code chose; independent prefix-tree evaluator vs sympy.lambdify of the formula on the real string API")
RULE = ("formula strings drawn from a grammar (x, a0..a3, integers, floats, + - * / ** unary minus, reciprocals, pow with symbolic and numeric "
        "exponents, the unary operators of the basis) for each of the six shipped bases; distinct = (basis, formula); non-trivial = at least "
        "three labels and at least one evaluation point where all power bases are positive")
EXPLANATION = LEVEL_TEXT
TRUSTED = ["hand model ESRVerif/Model/ToList.lean (tied by correspondence on the serialised sympy tree: class name, is_number, is_symbol, str, exact value, args / as_two_terms)",
           "harness/extractors/tolist.py (special-case table, to_list literals, label renaming)",
           "sympy 1.14: sympify/kernS/evalf/powsimp/factor/str/== on numbers (which tree comes out is observed, not modelled)",
           "harness/oracle_tree.py (independent evaluator) and sympy.lambdify of the formula parsed with esr.fitting.sympy_symbols.sympy_locs",
           "Python eval() inside generator.is_float is modelled for numeric literals only"]
ASSUMPTIONS = ["str() of a sympy number denotes its value (Float: 15 significant digits; values compared to 1e-8 relative plus the spread caused by a last-digit error of every printed float)",
               "a formula with none of the six evaluation points admissible (all power bases positive; typically nowhere a real function, e.g. (-1.0)**2.5 or log_abs(a0-a0)) is not held to name only basis operators (labels I, zoo, -oo, sinh, im ...): counted in coverage.unknown_label_without_admissible_point_not_counted; every other failure kind is still reported for it",
               "'never inside exponents' is read as the code documents it: direct children of pow keep their number; a number deeper inside an exponent is replaced (counted in coverage.interpretation_deeper_exponent_replaced, not alarmed on)",
               "power bases: every Pow node of the formula's sympy tree and of the tree the conversion chose, and every explicit **, pow, sqrt, inv, cube argument and denominator, must be positive at an evaluation point",
               "the four parse variants and the minimum-node-count choice are exercised, not modelled: the model is fed the tree the real code chose"]
MODELLED = ["generator.py:DecoratedNode.__init__", "generator.py:DecoratedNode.to_list", "generator.py:DecoratedNode.count_nodes",
            "generator.py:DecoratedNode.is_unity", "generator.py:string_to_node", "generator.py:string_to_expr", "generator.py:labels_to_shape",
            "generator.py:is_float", "fit_single.py:fit_from_string", "fit_single.py:string_to_aifeyn", "generator.py:check_tree"]

EXTRA_BASES = [
    ("x_cube_sqrt", [["x", "a"], ["cube", "sqrt", "inv", "square"], ["+", "*", "-", "/", "pow"]]),
    ("x_nodiv", [["x", "a"], ["exp", "sqrt_abs"], ["+", "*", "pow"]]),
    ("x_noinv", [["x", "a"], ["square", "log_abs"], ["+", "*", "-", "/", "pow"]]),
]
PARAMS = ["a0", "a1", "a2", "a3"]
ANCHORS = {"esr/generation/generator.py": [(71, 212), (415, 447), (494, 573)], "esr/fitting/fit_single.py": [(105, 208), (243, 302)]}

# --------------------------------------------------------------------------------------------------------------
# grammar
# --------------------------------------------------------------------------------------------------------------

INTS = ["1", "2", "3", "4", "5", "10"]
FLOATS = ["0.5", "1.5", "2.5", "0.25", "3.7", "1.0", "2.0", "0.1"]
NEGS = ["(-1)", "(-2)", "(-0.5)", "(-1.0)"]
EXPS = ["2", "3", "-1", "-2", "0.5", "1.5", "2.5", "-0.5", "(1/2)", "4", "-1.5"]


def gen_formula(rng, basis, depth, exotic=False):
    def leaf():
        r = rng.random()
        if r < 0.40:
            return "x"
        if r < 0.75:
            return rng.choice(PARAMS[:rng.choice([1, 2, 2, 3, 4])])
        if r < 0.86:
            return rng.choice(INTS)
        if r < 0.90:
            return rng.choice(NEGS)
        return rng.choice(FLOATS)

    def atomish(s):
        return re.match(r"[A-Za-z0-9_.]+\Z", s) is not None

    def par(s):
        return s if atomish(s) else "(" + s + ")"

    def go(d):
        if d <= 0 or rng.random() < 0.12:
            return leaf()
        r = rng.random()
        if r < 0.42:
            op = rng.choice(["+", "-", "*", "/", "*", "+"])
            a, b = go(d - 1), go(d - 1)
            sp = rng.choice(["", " "])
            return par(a) + sp + op + sp + par(b)
        if r < 0.52:
            return "pow(" + go(d - 1) + "," + rng.choice(["", " "]) + go(d - 1) + ")"
        if r < 0.60:
            return "pow(" + go(d - 1) + ", " + rng.choice(EXPS).strip("()") + ")"
        if r < 0.70:
            return par(go(d - 1)) + "**" + rng.choice(EXPS if rng.random() < 0.8 else ["(" + go(d - 2) + ")"])
        if r < 0.72:
            return "-" + par(go(d - 1))
        if r < 0.75:
            # a power times / over minus one (the "* inv" / "/ inv" branches of to_list)
            pw = "pow(" + go(d - 1) + "," + go(d - 1) + ")" if rng.random() < 0.6 else par(go(d - 1)) + "**" + par(go(d - 1))
            return pw + rng.choice(["*(-1)", "/(-1)", " * (-1)"])
        if r < 0.80:
            return "1/" + par(go(d - 1))
        un = list(basis[1])
        if exotic:
            un += ["Abs", "sin", "cube", "exp", "sqrt", "log", "foo"]
        if not un:
            return par(go(d - 1)) + "*" + par(go(d - 1))
        if exotic and rng.random() < 0.15:
            return rng.choice(["pi", "E", "sqrt(2)", "2**3", "x*x*x", "1*x*1", "x*(-1)", "(-1)*pow(x,a0)", "pow(x,a0)*(-1)", "pow(x,a0)/(-1)", "3*x/3"])
        return rng.choice(un) + "(" + go(d - 1) + ")"
    return go(depth)


# --------------------------------------------------------------------------------------------------------------
# serialising the sympy tree exactly as DecoratedNode.__init__ reads it
# --------------------------------------------------------------------------------------------------------------

def _hex(s):
    return s.encode("utf-8").hex() if s else "-"


def _float_frac(e):
    sign, man, exp, bc = e._mpf_
    if man == 0 and exp != 0:
        return None                                   # inf / nan
    v = Fraction(int(man)) * (Fraction(2) ** int(exp))
    return -v if sign else v


def serialise(e):
    out = []

    def go(e):
        args = e.args
        k = len(args)
        isnum = bool(getattr(e, "is_number", False))
        issym = bool(getattr(e, "is_symbol", False))
        st = str(e) if isnum else (e.name if issym else "")
        num = "-"
        if k == 0 and isnum:
            if getattr(e, "is_Rational", False):
                num = "r%d/%d" % (int(e.p), int(e.q)) if abs(int(e.p)).bit_length() <= 4000 and int(e.q).bit_length() <= 4000 else "o"
            elif getattr(e, "is_Float", False):
                fr = _float_frac(e)
                if fr is None or fr.numerator.bit_length() > 4000 or fr.denominator.bit_length() > 4000:
                    num = "o"                          # inf/nan, or beyond Python's int->str digit limit
                else:
                    num = "f%d/%d@%d" % (fr.numerator, fr.denominator, int(e._prec))
            else:
                num = "o"
        out.append("%s:%d:%s:%s:%s" % (e.__class__.__name__, k, (("n" if isnum else "") + ("s" if issym else "")) or "-", _hex(st), num))
        if k > 2:
            if hasattr(e, "as_two_terms"):
                a, r = e.as_two_terms()
                go(a); go(r)
            else:
                go(args[0]); go(args[1])
        else:
            for a in args:
                go(a)
    go(e)
    return out


def _bs(c):
    return "_" if not c else ",".join(c)


def _sendable(labels):
    return all(isinstance(l, str) and l and not re.search(r"\s", l) for l in labels)


# --------------------------------------------------------------------------------------------------------------
# the formula itself: value and power-base positivity, independent of the conversion
# --------------------------------------------------------------------------------------------------------------

class _V(object):
    """float wrapper that records whether every power base / denominator met so far is positive"""
    __slots__ = ("v",)
    ok = True

    def __init__(self, v):
        self.v = float(v.v if isinstance(v, _V) else v)

    @staticmethod
    def base(a):
        if not (_V(a).v > 0):
            _V.ok = False

    def __add__(s, o): return _V(s.v + _V(o).v)
    __radd__ = __add__
    def __sub__(s, o): return _V(s.v - _V(o).v)
    def __rsub__(s, o): return _V(_V(o).v - s.v)
    def __mul__(s, o): return _V(s.v * _V(o).v)
    __rmul__ = __mul__
    def __neg__(s): return _V(-s.v)
    def __pos__(s): return s

    def __truediv__(s, o):
        _V.base(o); return _V(s.v / _V(o).v)

    def __rtruediv__(s, o):
        _V.base(s); return _V(_V(o).v / s.v)

    def __pow__(s, o):
        _V.base(s); return _V(math.pow(s.v, _V(o).v))

    def __rpow__(s, o):
        _V.base(o); return _V(math.pow(_V(o).v, s.v))


def _vfun(f, base=False):
    def g(a):
        if base:
            _V.base(a)
        return _V(f(_V(a).v))
    return g


def _vpow(a, b):
    _V.base(a)
    return _V(math.pow(abs(_V(a).v), _V(b).v))


_VNS = {"pow": _vpow, "pow_abs": _vpow, "sqrt_abs": _vfun(lambda a: math.sqrt(abs(a)), True), "sqrt": _vfun(math.sqrt, True),
        "log_abs": _vfun(lambda a: math.log(abs(a))), "log": _vfun(math.log, True), "exp": _vfun(math.exp), "sin": _vfun(math.sin),
        "inv": _vfun(lambda a: 1.0 / a, True), "square": _vfun(lambda a: a * a), "cube": _vfun(lambda a: a * a * a, True),
        "tenexp": _vfun(lambda a: math.pow(10.0, a)), "log10_abs": _vfun(lambda a: math.log10(abs(a))), "Abs": _vfun(abs), "__builtins__": {}}

_LAMBDA_FUNS = {"log_abs": lambda a: math.log(abs(a)), "sqrt_abs": lambda a: math.sqrt(abs(a)), "square": lambda a: a * a, "cube": lambda a: a * a * a,
                "inv": lambda a: 1.0 / a, "pow_abs": lambda a, b: math.pow(abs(a), b), "tenexp": lambda a: math.pow(10.0, a),
                "log10_abs": lambda a: math.log10(abs(a))}


def _explicit_ok(formula, env):
    _V.ok = True
    ns = dict(_VNS)
    ns.update({k: _V(v) for k, v in env.items()})
    try:
        r = eval(formula, ns)
        v = _V(r).v
    except Exception:
        return False, None
    return _V.ok, v


def _pow_bases(expr):
    import sympy
    return [p.base for p in expr.atoms(sympy.Pow)]


def _lamb(names, exprs):
    import sympy
    syms = {}
    for e in exprs:
        for s in e.free_symbols:
            syms.setdefault(s.name, []).append(s)
    # same-named symbols with different assumptions (sympify vs kernS): substitute all by one dummy per name
    args = [sympy.Dummy(n) for n in names]
    sub = {}
    for n, d in zip(names, args):
        for s in syms.get(n, []):
            sub[s] = d
    ex2 = [e.xreplace(sub) for e in exprs]
    return sympy.lambdify(args, ex2, modules=[_LAMBDA_FUNS, "math"])


def formula_points(formula, points, chosen):
    """[(env, value)] at the points where all power bases are positive; value by sympy.lambdify of the formula parsed with
    ESR's generation symbol table"""
    import sympy
    from esr.fitting.sympy_symbols import sympy_locs
    names = ["x"] + PARAMS
    ee = sympy.sympify(formula, locals=dict(sympy_locs))
    extra = [s.name for s in ee.free_symbols if s.name not in names]
    if extra or ee.has(sympy.zoo, sympy.nan, sympy.oo, -sympy.oo, sympy.I):
        return None                                   # foreign symbol, or nowhere a finite real function: out of scope
    bases = _pow_bases(ee)
    for c in chosen:
        if c is not None:
            bases += _pow_bases(c)
    f = _lamb(names, [ee] + bases)
    out = []
    for env in points:
        ok, v_py = _explicit_ok(formula, env)
        if not ok:
            continue
        try:
            vals = f(*[env[n] for n in names])
            vals = [float(v) for v in vals]
        except Exception:
            continue
        if not all(math.isfinite(v) for v in vals) or not all(b > 0 for b in vals[1:]) or abs(vals[0]) > 1e12:
            continue
        out.append((env, vals[0]))
    return out


def _close(a, b):
    return math.isfinite(a) and math.isfinite(b) and abs(a - b) <= 1e-8 * max(1.0, abs(a), abs(b))


# --------------------------------------------------------------------------------------------------------------
# one formula on the real code (+ the oracle of the property)
# --------------------------------------------------------------------------------------------------------------

_ST = {}


def _install():
    """patch the staged modules once per process: memoised string_to_node, no optimiser, capture of the aifeyn labels"""
    if _ST.get("installed"):
        return
    from esr.generation import generator as g
    import esr.fitting.fit_single as fs
    orig = g.string_to_node
    _ST["orig_s2n"] = orig
    _ST["cache"] = {}

    def memo(s, basis_functions, *a, **k):
        key = (s, repr(basis_functions), repr(a), repr(sorted(k.items())))
        c = _ST["cache"]
        if key not in c:
            try:
                c[key] = (True, orig(s, basis_functions, *a, **k))
            except Exception as e:
                c[key] = (False, e)
        ok, r = c[key]
        if not ok:
            raise r
        return r
    g.string_to_node = memo
    _ST["orig_single"] = fs.single_function
    fs.single_function = lambda labels, *a, **k: (0.0, 0.0, []) if k.get("return_params") else (0.0, 0.0)
    orig_t2a = fs.tree_to_aifeyn
    _ST["orig_t2a"] = orig_t2a

    def t2a(labels, basis_functions, verbose=True):
        _ST["aif_labels"] = list(labels)
        return orig_t2a(labels, basis_functions, verbose=False)
    fs.tree_to_aifeyn = t2a
    _ST["installed"] = True
    _monitor_start()


def _uninstall():
    if not _ST.get("installed"):
        return
    from esr.generation import generator as g
    import esr.fitting.fit_single as fs
    g.string_to_node = _ST["orig_s2n"]
    fs.single_function = _ST["orig_single"]
    fs.tree_to_aifeyn = _ST["orig_t2a"]
    _ST["installed"] = False


def _monitor_start():
    """executed lines of the anchored files (each line reported once, then disabled)"""
    _ST["lines"] = set()
    mon = getattr(sys, "monitoring", None)
    if mon is None:
        return
    tid = 3
    try:
        mon.use_tool_id(tid, "c18cov")
    except Exception:
        return

    def cb(code, line):
        fn = code.co_filename
        if fn.endswith("generation/generator.py") or fn.endswith("fitting/fit_single.py"):
            _ST["lines"].add(("esr/generation/generator.py" if fn.endswith("generator.py") else "esr/fitting/fit_single.py", line))
        return mon.DISABLE
    mon.register_callback(tid, mon.events.LINE, cb)
    mon.set_events(tid, mon.events.LINE)


def _silent(f, *a, **k):
    with contextlib.redirect_stdout(io.StringIO()):
        return f(*a, **k)


def _exc(e):
    return type(e).__name__


def _ops_sig(labels):
    return ",".join(sorted(set(l for l in labels if ot.number_value(l) is None and not re.match(r"(a\d+|x)\Z", l))))


def _print_slack(names, basis, env, v):
    """how far the value can move when every printed float (15 significant digits, relative error <= 5e-15) is off in
    its last digit: ill-conditioned formulas (sin of a huge power) must not be reported as a change of function"""
    eps = 1e-12
    tot = 0.0
    for j, l in enumerate(names):
        x = ot.number_value(l)
        if x is None or not re.search(r"[.eE]", l) or x == 0 or not math.isfinite(x):
            continue
        for sgn in (1.0, -1.0):
            trial = list(names)
            trial[j] = repr(x * (1.0 + sgn * eps))
            try:
                w = ot.eval_labels(trial, basis, env)
            except Exception:
                return float("inf")
            if not math.isfinite(w):
                return float("inf")
            tot += abs(w - v) / 2.0
    return 0.04 * tot


def _check_labels(api, labels, basis, pts, fails, rename, param_env=None):
    """well-formed + same function. returns parsed tree or None"""
    names = [ot.api_name(l) for l in labels] if rename else list(labels)
    try:
        tree = ot.parse(names, basis)
    except ot.Malformed as m:
        fails.append(("%s:not-well-formed:%s" % (api, ot.diagnose(names, basis)), "%s returned labels %r which are not the prefix form of a tree over the basis (%s)" % (api, labels, m)))
        return None
    for env, fv in pts or []:
        e2 = dict(env)
        if param_env is not None:
            e2 = param_env(env)
            if e2 is None:
                continue
        try:
            v = ot.evaluate(tree, e2)
        except ot.Malformed as m:
            fails.append(("%s:not-well-formed:%s" % (api, m.sig), "%s labels %r cannot be evaluated (%s)" % (api, labels, m)))
            return tree
        except (ArithmeticError, ValueError, OverflowError):
            continue
        if not _close(v, fv) and abs(v - fv) > _print_slack(names, basis, e2, v):
            fails.append(("%s:value-mismatch:%s" % (api, _ops_sig(names)),
                          "%s labels %r evaluate to %.12g but the formula is %.12g at %s (all power bases positive there)" % (
                              api, labels, v, fv, {k: round(x, 6) for k, x in e2.items()})))
            break
    return tree


class _Timeout(BaseException):
    """not an Exception: ESR's `except Exception` around each parse variant must not swallow it"""


def _alarm(signum, frame):
    raise _Timeout()


JOB_TIMEOUT_S = 8.0


def process(job):
    """one formula under a wall-clock limit (sympy can take minutes on a pathological power tower)"""
    import signal
    old = signal.signal(signal.SIGALRM, _alarm)
    signal.setitimer(signal.ITIMER_REAL, JOB_TIMEOUT_S)
    try:
        return _process(job)
    except _Timeout:
        formula, bname, basis, points, mode = job
        return dict(f=formula, b=bname, mode="timeout", fails=[], interp=0, s2n=dict(ok=False, exc="harness-timeout"),
                    ev=dict(ok=False, exc="harness-timeout"), F0=dict(ok=False, exc="harness-timeout"), F1=dict(ok=False, exc="harness-timeout"),
                    A0=dict(ok=False, exc="harness-timeout"), A1=dict(ok=False, exc="harness-timeout"), admissible=0, lines=[])
    finally:
        signal.setitimer(signal.ITIMER_REAL, 0)
        signal.signal(signal.SIGALRM, old)


def _process(job):
    """job = (formula, basis name, basis, points, mode) ; mode: 'full' | 'corr' (no oracle: exotic formula or extra basis)"""
    formula, bname, basis, points, mode = job
    _install()
    from esr.generation import generator as g
    import esr.fitting.fit_single as fs
    _ST["cache"].clear()
    rec = dict(f=formula, b=bname, mode=mode, fails=[], interp=0)
    # 1. string_to_node, default arguments
    expr0 = expr1 = None
    try:
        expr0, nodes0, c0 = _silent(g.string_to_node, formula, basis)
        lab0 = nodes0.to_list(basis)
        rec["s2n"] = dict(ok=True, labels=[str(l) for l in lab0] if lab0 is not None else None, c=int(c0), ser=serialise(expr0),
                          count=int(nodes0.count_nodes(basis)))
    except Exception as e:
        rec["s2n"] = dict(ok=False, exc=_exc(e))
    # 2. evalf=True parse as the string API uses it
    try:
        expr1, nodes1, c1 = _silent(g.string_to_node, formula, basis, evalf=True)
        lab1 = nodes1.to_list(basis)
        rec["ev"] = dict(ok=True, labels=[str(l) for l in lab1], c=int(c1), ser=serialise(expr1))
    except Exception as e:
        rec["ev"] = dict(ok=False, exc=_exc(e))
    # 3. the string API
    for key, rf in (("F0", False), ("F1", True)):
        try:
            r = _silent(fs.fit_from_string, formula, basis, None, replace_floats=rf)
            rec[key] = dict(ok=True, labels=[str(l) for l in r[2]])
        except Exception as e:
            rec[key] = dict(ok=False, exc=_exc(e))
    for key, rf in (("A0", False), ("A1", True)):
        try:
            _ST["aif_labels"] = None
            r = _silent(fs.string_to_aifeyn, formula, basis, verbose=False, replace_floats=rf)
            rec[key] = dict(ok=True, labels=[str(l) for l in _ST["aif_labels"]], comp=int(r[1]))
        except Exception as e:
            if _ST["aif_labels"] is not None:          # the relabelling pass finished; tree_to_aifeyn raised afterwards
                rec[key] = dict(ok=True, labels=[str(l) for l in _ST["aif_labels"]], comp=None, post_exc=_exc(e))
            else:
                rec[key] = dict(ok=False, exc=_exc(e))
    rec["admissible"] = 0
    if mode == "full":
        _oracle(rec, formula, basis, points, [expr0, expr1])
    rec["lines"] = sorted(_ST.get("lines", ()))
    return rec


def _oracle(rec, formula, basis, points, chosen):
    fails = rec["fails"]
    try:
        pts = formula_points(formula, points, chosen)
    except Exception as e:
        rec["formula_error"] = _exc(e)
        pts = None
    if pts is None:
        rec["mode"] = "corr"                      # the formula itself is not evaluable (foreign symbol, sympify error): out of scope
        return
    rec["admissible"] = len(pts)
    # --- string_to_node(...).to_list(...)
    s = rec["s2n"]
    if not s["ok"]:
        fails.append(("S2N:raises:%s" % s["exc"], "string_to_node(%r) raised %s" % (formula, s["exc"])))
    elif s["labels"] is None:
        fails.append(("S2N:returns-none", "to_list returned None for %r" % formula))
    else:
        _check_labels("S2N", s["labels"], basis, pts, fails, rename=True)
        if s["c"] != len(s["labels"]) or s["count"] != len(s["labels"]):
            fails.append(("S2N:complexity", "string_to_node(%r) reports complexity %d (count_nodes %d) but returns %d labels" % (formula, s["c"], s["count"], len(s["labels"]))))
    # --- fit_from_string / string_to_aifeyn without replacement
    raw = rec["ev"]["labels"] if rec["ev"]["ok"] else None

    def why(excname):
        if raw is not None:
            sig = ot.diagnose([ot.api_name(l) for l in raw], basis)
            if sig:
                return ":" + sig
        return ""
    for api, key in (("FIT", "F0"), ("AIF", "A0")):
        r = rec[key]
        if not r["ok"]:
            fails.append(("%s:raises:%s%s" % (api, r["exc"], why(r["exc"])),
                          "%s(%r) raised %s; to_list gave %r" % ("fit_from_string" if api == "FIT" else "string_to_aifeyn", formula, r["exc"], raw)))
            continue
        _check_labels(api, r["labels"], basis, pts, fails, rename=False)
        if r.get("post_exc"):
            fails.append(("%s:raises:%s%s" % (api, r["post_exc"], why(r["post_exc"])),
                          "string_to_aifeyn(%r) raised %s in tree_to_aifeyn for labels %r" % (formula, r["post_exc"], r["labels"])))
        elif api == "AIF" and r["comp"] != len(r["labels"]):
            fails.append(("AIF:complexity", "string_to_aifeyn(%r) reports complexity %d for %d labels" % (formula, r["comp"], len(r["labels"]))))
    # --- with replacement
    for api, key, base in (("FIT-RF", "F1", "F0"), ("AIF-RF", "A1", "A0")):
        r, r0 = rec[key], rec[base]
        if not r0["ok"]:
            continue                                   # already reported
        l0 = r0["labels"]
        if not r["ok"]:
            fails.append(("%s:raises:%s" % (api, r["exc"]),
                          "replace_floats=True on %r raised %s (labels without replacement: %r)" % (formula, r["exc"], l0)))
            continue
        l1 = r["labels"]
        try:
            par = ot.parents(l0, basis)
        except ot.Malformed:
            continue
        if len(l1) != len(l0):
            fails.append(("%s:length" % api, "replace_floats changed the number of labels: %r vs %r" % (l1, l0)))
            continue
        k = 0
        assign = {}
        bad = None
        for j, (a, b) in enumerate(zip(l0, l1)):
            isnum = ot.number_value(a) is not None
            ispar = re.match(r"a\d+\Z", a) is not None
            if isnum and par[j] == "pow":
                if b != a:
                    bad = ("%s:exponent-replaced" % api, "the number %r, a direct child of pow, became %r in %r (from %r)" % (a, b, l1, l0))
                continue
            if isnum or ispar:
                if b != "a%d" % k:
                    bad = ("%s:numbering" % api, "position %d (%r) should become a%d but is %r: %r (from %r)" % (j, a, k, b, l1, l0))
                    break
                assign["a%d" % k] = a
                k += 1
                if isnum:
                    # deeper inside an exponent?  (interpretation, not alarmed on)
                    if any(l0[p] == "pow" and _is_in_second(l0, basis, p, j) for p in _ancestors(l0, basis, j)):
                        rec["interp"] += 1
            elif b != a:
                bad = ("%s:operator-changed" % api, "label %r at %d became %r under replace_floats" % (a, j, b))
                break
        if bad:
            fails.append(bad)
            continue

        def penv(env, assign=assign):
            e2 = {"x": env["x"]}
            for nk, old in assign.items():
                v = ot.number_value(old)
                e2[nk] = env[old] if v is None else v
            return e2
        _check_labels(api, l1, basis, pts, fails, rename=False, param_env=penv)
    if rec["admissible"] == 0:
        # none of the evaluation points has all power bases positive (typically a negative constant under a fractional
        # power: nowhere a real function): labels such as I, zoo, sinh, im are not held against the conversion
        kept = [f_ for f_ in fails if ":unknown-label:" not in f_[0]]
        rec["degenerate_dropped"] = len(fails) - len(kept)
        fails[:] = kept
    # without replacement no numeric constant may turn into a parameter: parameters of the result ⊆ parameters of the formula
    for api, key in (("FIT", "F0"), ("AIF", "A0")):
        r = rec[key]
        if r["ok"]:
            newp = [l for l in r["labels"] if re.match(r"a\d+\Z", l) and not re.search(r"\b%s\b" % l, formula)]
            if newp:
                fails.append(("%s:parameter-invented" % api, "labels %r contain %r which the formula %r does not" % (r["labels"], newp, formula)))


def _ancestors(labels, basis, j):
    """positions of the ancestors of j, nearest first"""
    t = ot.parse(labels, basis)
    path = []

    def walk(n, acc):
        if n[1] == j:
            path.extend(reversed(acc))
            return True
        for c in n[2:]:
            if walk(c, acc + [n[1]]):
                return True
        return False
    walk(t, [])
    return path


def _is_in_second(labels, basis, p, j):
    """is position j inside the SECOND operand (the exponent) of the binary node at p?"""
    t = ot.parse(labels, basis)

    def find(n):
        if n[1] == p:
            return n
        for c in n[2:]:
            r = find(c)
            if r:
                return r
        return None
    n = find(t)
    if n is None or len(n) < 4:
        return False

    def has(m):
        return m[1] == j or any(has(c) for c in m[2:])
    return has(n[3])


# --------------------------------------------------------------------------------------------------------------
# run
# --------------------------------------------------------------------------------------------------------------

def _points(rng):
    pts = []
    for k in range(6):
        env = {"x": rng.uniform(0.4, 2.5)}
        for p in PARAMS:
            v = rng.uniform(0.3, 2.5)
            if k >= 3 and rng.random() < 0.5:
                v = -v
            env[p] = v
        pts.append(env)
    return pts


def _jobs(ctx, n, bases):
    rng = ctx.rng
    pts = _points(rng)
    jobs = []
    seen = set()
    tries = 0
    while len(jobs) < n and tries < 20 * n:
        tries += 1
        r = rng.random()
        if r < 0.86:
            bname, basis = bases[len(jobs) % len(bases)]
            mode, exotic = "full", False
        elif r < 0.93:
            bname, basis = bases[rng.randrange(len(bases))]
            mode, exotic = "corr", True
        else:
            bname, basis = EXTRA_BASES[rng.randrange(len(EXTRA_BASES))]
            mode, exotic = "corr", rng.random() < 0.3
        f = gen_formula(rng, basis, rng.choice([1, 2, 2, 3, 3, 4]), exotic)
        if len(f) > 90 or (bname, f) in seen:
            continue
        if not re.search(r"\bx\b", f) and rng.random() < 0.97:
            continue                                   # constant formulas: only a few
        seen.add((bname, f))
        jobs.append((f, bname, basis, pts, mode))
    return jobs, pts


def _run_jobs(jobs, nproc):
    if nproc <= 1 or len(jobs) < 40:
        return [process(j) for j in jobs]
    import multiprocessing as mp
    ctxm = mp.get_context("fork")
    with ctxm.Pool(nproc) as pool:
        return pool.map(process, jobs, chunksize=max(1, len(jobs) // (nproc * 8)))


def _anchored_lines(stage):
    """executable line numbers of the anchored ranges"""
    out = {}
    for rel, ranges in ANCHORS.items():
        src = open(os.path.join(stage, rel)).read()
        code = compile(src, rel, "exec")
        lines = set()

        def walk(c):
            for _, _, ln in c.co_lines():
                if ln is not None:
                    lines.add(ln)
            for k in c.co_consts:
                if hasattr(k, "co_lines"):
                    walk(k)
        walk(code)
        out[rel] = sorted(l for l in lines if any(a <= l <= b for a, b in ranges))
    return out


def run(ctx):
    drift = extract.drifted(ctx.proof.get("extract", {}), MODELLED)
    deep = (not ctx.quick) or bool(drift)
    ctx.extra["source_drift"] = drift
    from extractors import shape as shx
    bases = [(n, b) for n, b, _ in shx.bases(ctx.stage)]
    # import the staged ESR before forking
    from esr.generation import generator as g      # noqa
    import esr.fitting.fit_single as fs             # noqa
    n = 30000 if deep else 1500
    n = int(os.environ.get("C18_N", n))
    jobs, pts = _jobs(ctx, n, bases)
    nproc = int(os.environ.get("C18_PROCS", min(12, os.cpu_count() or 1)))
    t0 = time.time()
    try:
        recs = _run_jobs(jobs, nproc)
    finally:
        _uninstall()
    ctx.extra["real_code_wall_s"] = round(time.time() - t0, 1)
    _compare(ctx, jobs, recs, pts)


def _model(ctx, lines):
    """the executable model; if it cannot be built/run (e.g. the extractor failed closed) the correspondence is broken,
    but the oracle on the real code must still run"""
    if not lines:
        return []
    try:
        return common.model(lines)
    except Exception as e:
        ctx.disagree("corr:model-unavailable", repr(e)[:300])
        return ["model-unavailable"] * len(lines)


def _compare(ctx, jobs, recs, pts):
    ops, want, what = [], [], []
    skipped = 0
    for job, rec in zip(jobs, recs):
        f, bname, basis, _, _ = job
        bs = "%s %s %s" % (_bs(basis[0]), _bs(basis[1]), _bs(basis[2]))
        s = rec["s2n"]
        if s["ok"] and s["labels"] is not None and _sendable(s["labels"]):
            ops.append("tolist %s %s" % (bs, " ".join(s["ser"])))
            want.append("ok %d %s" % (s["c"], " ".join(s["labels"])))
            what.append(("to_list", f, bname))
        elif s["ok"]:
            skipped += 1
        e = rec["ev"]
        if e["ok"] and _sendable(e["labels"]):
            ops.append("tolist %s %s" % (bs, " ".join(e["ser"])))
            want.append("ok %d %s" % (e["c"], " ".join(e["labels"])))
            what.append(("to_list(evalf)", f, bname))
            for key, rf in (("F0", 0), ("F1", 1), ("A0", 0), ("A1", 1)):
                r = rec[key]
                ops.append("tlrelabel %d 20 %s %s" % (rf, bs, " ".join(e["labels"])))
                want.append("ok " + " ".join(r["labels"]) if r["ok"] else "err")
                what.append(("relabel:%s" % key, f, bname))
    # the Lean evaluator (ESR operator semantics of the theorems) against the independent oracle, on real label lists
    ev_ops, ev_want, ev_what = [], [], []
    env0 = pts[0]
    for job, rec in zip(jobs, recs):
        f, bname, basis, _, _ = job
        s2 = rec["s2n"]
        if not (s2["ok"] and s2["labels"] and _sendable(s2["labels"])):
            continue
        names = [ot.api_name(l) for l in s2["labels"]]
        try:
            tree = ot.parse(names, basis)
        except ot.Malformed:
            wv = "err"
        else:
            try:
                v = ot.evaluate(tree, env0)
                wv = v if math.isfinite(v) else "nonfinite"
            except ot.Malformed:
                continue
            except (ArithmeticError, ValueError, OverflowError):
                continue                               # Python raises where IEEE arithmetic continues (inf, nan): not comparable
        ev_ops.append("tleval %s %s %s %s %s" % (_bs(basis[0]), _bs(basis[1]), _bs(basis[2]),
                                                 " ".join(common.f2b(env0[n]) for n in ["x"] + PARAMS), " ".join(s2["labels"])))
        ev_want.append(wv)
        ev_what.append((f, bname))
    ev_out = _model(ctx, ev_ops)
    ev_bad = 0
    for o, w, m, wh in zip(ev_ops, ev_want, ev_out, ev_what):
        if m == "model-unavailable":
            okk = False
        elif m == "err":
            okk = (w == "err")
        else:
            mv = common.b2f(m)
            okk = (w == "nonfinite" and not math.isfinite(mv)) or (isinstance(w, float) and (_close(w, mv) or (abs(w) > 1e300 and not math.isfinite(mv))))
        if not okk:
            ev_bad += 1
            if ev_bad <= 3:
                ctx.disagree("corr:evalLabels", "formula %r basis %s: oracle=%r model=%s op=%s" % (wh[0], wh[1], w, m if m == "err" else common.b2f(m), o[:300]))
    out = _model(ctx, ops)
    bad = {}
    nops = {}
    for o, w, m, wh in zip(ops, want, out, what):
        kind = wh[0].split(":")[0]
        nops[kind] = nops.get(kind, 0) + 1
        if w != m:
            bad[kind] = bad.get(kind, 0) + 1
            if bad[kind] <= 3:
                ctx.disagree("corr:%s" % wh[0], "formula %r basis %s: code=%s model=%s op=%s" % (wh[1], wh[2], w[:300], m[:300], o[:400]))
    # the property itself, on the real code
    label_kinds = {}
    n_interp = 0
    n_noadm = 0
    lines = set()
    modes = {}
    per_basis = {}
    for job, rec in zip(jobs, recs):
        f, bname, basis, _, _ = job
        modes[rec["mode"]] = modes.get(rec["mode"], 0) + 1
        if rec["mode"] == "timeout":
            continue
        per_basis[bname] = per_basis.get(bname, 0) + 1
        n_interp += rec.get("interp", 0)
        for ln in rec.get("lines", ()):
            lines.add(tuple(ln))
        labs = rec["s2n"].get("labels") or []
        for l in labs:
            if ot.number_value(l) is None and not re.match(r"(a\d+|x)\Z", l):
                label_kinds[l] = label_kinds.get(l, 0) + 1
        if rec["ev"]["ok"]:
            for l in rec["ev"]["labels"]:
                if l in ("Sqrt", "Cube", "Square"):
                    label_kinds[l + "(evalf)"] = label_kinds.get(l + "(evalf)", 0) + 1
        if rec["mode"] == "full":
            adm = rec.get("admissible", 0)
            if adm == 0:
                n_noadm += 1
            ctx.case((bname, f), nontrivial=(adm > 0 and len(labs) >= 3), n=max(1, adm) * 5)
            for key, whatmsg in rec["fails"]:
                ctx.fail(key, "%s [basis %s]" % (whatmsg, bname),
                         dict(formula=f, basis=basis, basis_name=bname, points=pts))
        else:
            ctx.case((bname, f), nontrivial=False)
    for job, rec in list(zip(jobs, recs))[:6]:
        ctx.sample(dict(formula=job[0], basis=job[1], to_list=rec["s2n"].get("labels"), fit_from_string=rec["F0"].get("labels", rec["F0"].get("exc")),
                        replace_floats=rec["F1"].get("labels", rec["F1"].get("exc")), admissible_points=rec.get("admissible")))
    kinds = sorted(nops)
    ctx.extra["corr_obligations"] = 3
    ctx.extra["corr_discharged"] = int(not bad.get("to_list") and not bad.get("to_list(evalf)")) + int(not bad.get("relabel")) + int(ev_bad == 0)
    ctx.extra["correspondence"] = {k: dict(ops=nops[k], mismatches=bad.get(k, 0)) for k in kinds}
    ctx.extra["correspondence"]["evalLabels_vs_oracle"] = dict(ops=len(ev_ops), mismatches=ev_bad)
    ctx.extra["formulas"] = len(jobs)
    ctx.extra["formulas_by_mode"] = modes
    ctx.extra["formulas_by_basis"] = per_basis
    ctx.extra["labels_not_sendable"] = skipped
    ctx.extra["operator_labels_seen"] = dict(sorted(label_kinds.items(), key=lambda kv: -kv[1])[:40])
    ctx.extra["no_admissible_point"] = n_noadm
    ctx.extra["unknown_label_without_admissible_point_not_counted"] = sum(r.get("degenerate_dropped", 0) for r in recs)
    ctx.extra["interpretation_deeper_exponent_replaced"] = n_interp
    ctx.extra["evaluation_points"] = [{k: round(v, 4) for k, v in p.items()} for p in pts]
    try:
        anch = _anchored_lines(ctx.stage)
        never = {rel: [l for l in ls if (rel, l) not in lines] for rel, ls in anch.items()}
        ctx.extra["anchored_lines_never_executed"] = never
        ctx.extra["anchored_lines_total"] = {rel: len(ls) for rel, ls in anch.items()}
    except Exception as e:
        ctx.extra["anchored_lines_never_executed"] = "unavailable: %r" % (e,)
    ctx.extra["exhaustive"] = False


def replay(ctx, data):
    rp = data["replay"]
    rec = process((rp["formula"], rp.get("basis_name", "?"), rp["basis"], rp["points"], "full"))
    _uninstall()
    print("formula %r basis %s" % (rp["formula"], rp["basis"]))
    print("  string_to_node -> %s" % (rec["s2n"].get("labels", rec["s2n"].get("exc")),))
    print("  fit_from_string -> %s ; replace_floats -> %s" % (rec["F0"].get("labels", rec["F0"].get("exc")), rec["F1"].get("labels", rec["F1"].get("exc"))))
    for k, w in rec["fails"]:
        print("  FAILS %s: %s" % (k, w))
    return not rec["fails"]
